"""C05 - datasets survive serialization and disk round trips unchanged."""

from __future__ import annotations

import os

import numpy as np
from hypothesis import strategies as st

from mzverif import core
from mzverif import gen as G
from mzverif import lib as L
from mzverif import model as M
from mzverif.core import Discard, Sub, Violation, call, require

ID = "C05"
LEVEL = "exploration"
TECHNIQUE = "round trip (serialize -> load in memory / ZANJ file) over generated and hand-built datasets x 3 formats x threshold rule, second-generation round trips of the loaded dataset (rearranged, mixed provenance, same object), collections incl. members sharing a name; oracle = field-by-field comparison with the source dataset; datasets saved to their own files by several threads at once"
RULE = (
    "case = (dataset: generated from a spec or hand-built with ragged / length-1 / length-2 / very long (>127, >255 cells) solutions; "
    "metadata combination: per-maze / collected / neither / both; format: full / minimal / minimal_soln_cat / auto under threshold "
    "None,1,len,len+1,100; channel: memory / file). Collections: 1..4 members, members may be empty when the full format is selected. "
    "Non-trivial = >= 2 mazes with different solution lengths, or a length-1/-2 solution, or a non-default format/threshold."
)
ASSUMPTIONS = [
    "configuration equality is evaluated against the dataset's configuration after the call (minimal formats collect metadata in place and record that in the live config, as documented)",
    "collected metadata is compared modulo str(key) (JSON object keys are strings)",
    "minimal formats are exercised on datasets with >= 1 maze (the quantifier says lengths >= 1); ZANJ (third party) is trusted to store arrays faithfully",
]

FORMATS = {"full": "MazeDataset", "minimal": "MazeDataset:minimal", "soln_cat": "MazeDataset:minimal_soln_cat"}


def _norm_meta(d):
    if d is None:
        return None
    return {str(k): {str(kk): int(vv) for kk, vv in v.items()} for k, v in d.items()}


def _hand_meta(g, sol):
    a = M.adj(g)
    comp = M.component(a, tuple(sol[0]))
    return dict(
        func_name="hand",
        grid_shape=np.array([g["r"], g["c"]]),
        start_coord=np.array(sol[0]),
        n_accessible_cells=int(len(comp)),
        fully_connected=bool(len(comp) == g["r"] * g["c"]),
        visited_cells={tuple(u) for u in comp},
        # the documented value kinds: a single coordinate (above), a set of coordinates (above), an array / list of coordinates (below)
        endpoints=np.array([sol[0], sol[-1]]),
        first_cells=[list(q) for q in sol[:3]],
    )


def _serpentine(n: int, length: int, start: int = 0):
    """a corridor snaking through an n x n grid, solution = `length` cells from position `start` of the corridor"""
    order = []
    for i in range(n):
        cols = range(n) if i % 2 == 0 else range(n - 1, -1, -1)
        order += [(i, j) for j in cols]
    bits = [0] * (2 * n * n)
    for u, v in zip(order[:-1], order[1:]):
        bits[M.edge_bit(n, n, u, v)] = 1
    return M.g_make(n, n, bits), [list(q) for q in order[start : start + length]]


def _keep_all(m, tag: str = "") -> bool:
    return True


def build_dataset(case: dict):
    from maze_dataset import MazeDataset, MazeDatasetConfig

    if case["src"] == "gen":
        cfg = L.make_cfg(case["spec"])
        try:
            ds = MazeDataset.from_config(cfg, load_local=False, save_local=False, do_download=False)
        except ValueError as e:
            core.discard_if_unsatisfiable(e, "C05:build:from_config")
        mode = case.get("meta", "fresh")
        if mode == "collected":
            if len(ds) == 0:
                raise Discard()
            ds = ds.filter_by.collect_generation_meta()
        elif mode == "stripped":
            ds = ds.filter_by.strip_generation_meta()
        elif mode == "custom-filtered":
            ds = ds.custom_maze_filter(_keep_all, tag="x")
        return ds
    n = case["n"]
    items = []
    for it in case["items"]:
        if "serp" in it:
            items.append(_serpentine(n, it["serp"], it.get("from", 0)))
        else:
            items.append((it["g"], it["sol"]))
    mode = case.get("meta", "none")
    per = mode in ("per-maze", "both")
    mazes = [L.solved(g, sol, meta=_hand_meta(g, sol) if per else None) for g, sol in items]
    coll = None
    if mode in ("collected-only", "both"):
        coll = {"func_name": {"hand": len(mazes)}, "start_coord": {}, "fully_connected": {True: 1, False: max(0, len(mazes) - 1)}, "n_accessible_cells": {3: len(mazes)}}
        for g, sol in items:
            k = tuple(sol[0])
            coll["start_coord"][k] = coll["start_coord"].get(k, 0) + 1
    # the recorded maze count may legitimately be stale (subsets / merges built from an existing config)
    cfg = MazeDatasetConfig(name=case.get("name", "hand"), grid_n=n, n_mazes=max(0, len(mazes) + case.get("n_mazes_off", 0)), seed=case.get("seed", 42))
    return MazeDataset(cfg, mazes, generation_metadata_collected=coll)


def _compare(sig, loaded, ds, pre_lengths):
    from maze_dataset import MazeDataset

    require(isinstance(loaded, MazeDataset), f"{sig}:type", f"loaded {type(loaded)}")
    require(len(loaded) == len(ds) == len(pre_lengths), f"{sig}:length", f"loaded {len(loaded)} mazes, serialized {len(ds)} (before the call {len(pre_lengths)})")
    require(loaded.cfg == ds.cfg, f"{sig}:cfg-not-equal", f"diff={_diff(ds.cfg, loaded.cfg)}")
    require(loaded.cfg.n_mazes == ds.cfg.n_mazes, f"{sig}:cfg-n_mazes", f"{loaded.cfg.n_mazes} vs {ds.cfg.n_mazes}")
    for i, (a, b) in enumerate(zip(ds.mazes, loaded.mazes)):
        ca, cb = np.asarray(a.connection_list), np.asarray(b.connection_list)
        require(ca.shape == cb.shape and np.array_equal(ca, cb), f"{sig}:connections", f"maze {i}: connection structure changed")
        sa, sb = np.asarray(a.solution), np.asarray(b.solution)
        require(sa.shape == sb.shape and np.array_equal(sa, sb), f"{sig}:solution", f"maze {i}: solution {sb.tolist()[:6]}.. (len {len(sb)}) vs {sa.tolist()[:6]}.. (len {len(sa)})")
        require(np.array_equal(np.asarray(a.start_pos), np.asarray(b.start_pos)) and np.array_equal(np.asarray(a.end_pos), np.asarray(b.end_pos)),
                f"{sig}:endpoints", f"maze {i}: {b.start_pos}->{b.end_pos} vs {a.start_pos}->{a.end_pos}")
        require(len(sa) == pre_lengths[i], f"{sig}:original-mutated", f"maze {i}: the dataset being serialized changed")
    if ds.generation_metadata_collected is not None:
        require(_norm_meta(loaded.generation_metadata_collected) == _norm_meta(ds.generation_metadata_collected), f"{sig}:collected-metadata",
                f"loaded {str(_norm_meta(loaded.generation_metadata_collected))[:200]} vs {str(_norm_meta(ds.generation_metadata_collected))[:200]}")


def _diff(a, b):
    try:
        return a.diff(b)
    except Exception as e:  # noqa: BLE001
        return f"<diff failed: {e}>"


def check(case: dict):
    import maze_dataset.dataset.maze_dataset as md
    from maze_dataset import MazeDataset
    from zanj import ZANJ

    ds = build_dataset(case)
    n = len(ds)
    fmt, channel = case["fmt"], case["channel"]
    if n == 0 and fmt != "full":
        raise Discard()
    thr = case.get("threshold", 100)
    thr_val = {"len": n, "len+1": n + 1}.get(thr, thr)
    if fmt == "auto":
        if thr_val is not None and thr_val <= 0:
            raise Discard()
        if n == 0 and thr_val is not None and n >= thr_val:
            raise Discard()
        md.set_serialize_minimal_threshold(thr_val)
        expect_fmt = "MazeDataset:minimal" if (thr_val is not None and n >= thr_val) else "MazeDataset"
    else:
        expect_fmt = FORMATS[fmt]
    sig = f"C05:{fmt}:{channel}"
    pre_lengths = [len(m.solution) for m in ds.mazes]
    ser = {"full": ds._serialize_full, "minimal": ds._serialize_minimal, "soln_cat": ds._serialize_minimal_soln_cat, "auto": ds.serialize}[fmt]
    try:
        if channel == "memory":
            data = call(f"{sig}:serialize", ser)
            # (which format the threshold picks is the library's business; the statement only says the round trip holds whichever it is)
            expect_fmt = data.get("__format__", expect_fmt)
            loaded = call(f"{sig}:load", MazeDataset.load, data)
        else:
            with core.TempDir() as td:
                path = os.path.join(td, "ds.zanj")
                if case.get("overwrite"):
                    # the path already holds an earlier save of another dataset with an EQUAL configuration (other mazes)
                    other = MazeDataset(cfg=ds.cfg, mazes=list(ds.mazes[::-1]) if len(ds.mazes) >= 2 else list(ds.mazes), generation_metadata_collected=ds.generation_metadata_collected)
                    if case["overwrite"] == "rotated" and len(ds.mazes) >= 2:
                        other = MazeDataset(cfg=ds.cfg, mazes=list(ds.mazes[1:]) + list(ds.mazes[:1]), generation_metadata_collected=ds.generation_metadata_collected)
                    call(f"{sig}:save-earlier", lambda: ZANJ().save(other._serialize_full(), path))
                    pre_lengths = [len(m.solution) for m in ds.mazes]
                if fmt == "auto":
                    call(f"{sig}:save", ds.save, path)
                else:
                    call(f"{sig}:save", lambda: ZANJ().save(ser(), path))
                loaded = call(f"{sig}:read", MazeDataset.read, path)
    finally:
        md.set_serialize_minimal_threshold(100)
    _compare(sig, loaded, ds, pre_lengths)
    again = case.get("again")
    if again:
        # second generation: the loaded dataset (arrays possibly views of one packed array, narrower dtypes) is rearranged / re-serialized
        mz = list(loaded.mazes)
        op = again["op"]
        if op == "reverse":
            mz = mz[::-1]
        elif op == "rotate" and mz:
            k = again.get("k", 1) % len(mz)
            mz = mz[k:] + mz[:k]
        elif op == "swap" and len(mz) >= 2:
            i, j = again.get("k", 0) % len(mz), (again.get("k", 0) + 1 + again.get("j", 0)) % len(mz)
            mz[i], mz[j] = mz[j], mz[i]
        elif op == "subset":
            mz = mz[again.get("k", 0) % 2 :: 2]
        elif op == "mix":
            # half of the mazes come from the loaded dataset, half are the originals (same content, different array provenance)
            mz = [b if (i + again.get("k", 0)) % 2 else a for i, (a, b) in enumerate(zip(ds.mazes, loaded.mazes))]
        if op.startswith("inplace"):
            # the loaded object itself is edited (same number of mazes) and serialized again
            ds2 = loaded
            if op == "inplace-reverse":
                ds2.mazes.reverse()
            elif op == "inplace-swap" and len(ds2.mazes) >= 2:
                i, j = again.get("k", 0) % len(ds2.mazes), (again.get("k", 0) + 1 + again.get("j", 0)) % len(ds2.mazes)
                ds2.mazes[i], ds2.mazes[j] = ds2.mazes[j], ds2.mazes[i]
            elif op == "inplace-replace" and len(ds2.mazes) >= 1:
                i = again.get("k", 0) % len(ds2.mazes)
                ds2.mazes[i] = ds.mazes[(i + 1 + again.get("j", 0)) % len(ds.mazes)]
            elif op == "inplace-assign":
                ds2.mazes = list(ds2.mazes[::-1])
        elif op == "same-object":
            ds2 = loaded
        else:
            ds2 = MazeDataset(cfg=loaded.cfg, mazes=mz, generation_metadata_collected=loaded.generation_metadata_collected)
        fmt2 = again["fmt"]
        if len(ds2) == 0 and fmt2 != "full":
            fmt2 = "full"
        sig2 = f"C05:again:{fmt2}"
        pre2 = [len(m.solution) for m in ds2.mazes]
        ser2 = {"full": ds2._serialize_full, "minimal": ds2._serialize_minimal, "soln_cat": ds2._serialize_minimal_soln_cat}[fmt2]
        data2 = call(f"{sig2}:serialize", ser2)
        loaded2 = call(f"{sig2}:load", MazeDataset.load, data2)
        _compare(sig2, loaded2, ds2, pre2)
    lens = sorted(set(pre_lengths))
    nt = (len(lens) >= 2) or (lens and lens[0] <= 2) or fmt != "full"
    labels = [f"fmt:{fmt}", f"ch:{channel}", f"meta:{case.get('meta')}", f"src:{case['src']}", "fmt-out:" + expect_fmt.split(":")[-1]]
    if lens and lens[-1] > 127:
        labels.append("len>127")
    if lens and lens[-1] > 255:
        labels.append("len>255")
    if n == 0:
        labels.append("empty")
    if case.get("n_mazes_off"):
        labels.append("stale-n_mazes")
    if again:
        labels += [f"again:{again['op']}", "again:packed->packed" if (expect_fmt != "MazeDataset" and again["fmt"] != "full") else "again:other-formats"]
    return {"nt": bool(nt), "labels": labels}


def check_threads(case: dict):
    """several datasets written to their own files by several threads at the same time (a checkpointing thread next to the main thread,
    say), then read back: every file holds the dataset that was written to it. The interleaving is sampled, not enumerated."""
    import sys
    import threading

    import maze_dataset.dataset.maze_dataset as md
    from maze_dataset import MazeDataset

    sets = [build_dataset(sub) for sub in case["datasets"]]
    if any(len(d) == 0 for d in sets):
        raise Discard()
    md.set_serialize_minimal_threshold(case.get("threshold", 100))
    pre = [[len(m.solution) for m in d.mazes] for d in sets]
    errors: list = []
    with core.TempDir() as td:
        paths = [os.path.join(td, f"ds{k}.zanj") for k in range(len(sets))]
        start = threading.Barrier(len(sets))

        def work(k):
            try:
                start.wait()
                sets[k].save(paths[k])
            except BaseException as e:  # noqa: BLE001
                errors.append((k, e))

        old = sys.getswitchinterval()
        sys.setswitchinterval(1e-6)
        try:
            ths = [threading.Thread(target=work, args=(k,)) for k in range(len(sets))]
            for t in ths:
                t.start()
            for t in ths:
                t.join()
        finally:
            sys.setswitchinterval(old)
            md.set_serialize_minimal_threshold(100)
        for k, e in errors:
            if isinstance(e, Exception) and core.raised_in_library(e):
                raise Violation(f"C05:threads:save-raises:{type(e).__name__}", f"dataset {k}: {str(e)[:200]}")
            raise e
        for k, d in enumerate(sets):
            loaded = call("C05:threads:read", MazeDataset.read, paths[k])
            _compare("C05:threads", loaded, d, pre[k])
    return {"nt": len(sets) >= 2, "labels": [f"threads:{len(sets)}"]}


@st.composite
def _threads(draw):
    k = draw(st.sampled_from([2, 2, 3]))
    subs_ = []
    for j in range(k):
        d = draw(_gen_dataset(5, 24))
        d["spec"]["n_mazes"] = draw(st.sampled_from([9, 12, 17, 24, 40]))  # stored arrays large enough to become members of their own in the file
        d["spec"]["grid_n"] = draw(st.sampled_from([4, 5, 6]))
        d["spec"]["ctor"], d["spec"]["kwargs"] = draw(st.sampled_from(["gen_dfs", "gen_wilson"])), {}
        d["spec"]["name"] = f"t{j}"
        d["spec"].pop("endpoint", None)
        d["spec"].pop("filters", None)
        subs_.append(d)
    return {"datasets": subs_, "threshold": draw(st.sampled_from([1, 100]))}


def check_collection(case: dict):
    import maze_dataset.dataset.maze_dataset as md
    from maze_dataset import MazeDatasetCollection, MazeDatasetCollectionConfig

    if case.get("route") == "generate":
        # the library's own route: member configs of the collection config are distinct objects from the members' configs
        specs = [dict(m["spec"], name=f"m{j}") for j, m in enumerate(case["members"])]
        ccfg = MazeDatasetCollectionConfig(name="col", maze_dataset_configs=[L.make_cfg(sp) for sp in specs])
        try:
            col = MazeDatasetCollection.generate(ccfg)
        except ValueError as e:
            core.discard_if_unsatisfiable(e, "C05:build:collection-generate")
        members = col.maze_datasets
    else:
        members = [build_dataset(m) for m in case["members"]]
        names = case.get("names") or list(range(len(members)))  # members may share a config name
        for j, ds in enumerate(members):
            ds.cfg.name = f"m{names[j]}"
        extra = case.get("ccfg") or {}
        ccfg = MazeDatasetCollectionConfig(name=extra.get("name", "col"), maze_dataset_configs=[ds.cfg for ds in members],
                                           **{k: v for k, v in extra.items() if k in ("seq_len_min", "seq_len_max", "seed")})
        col = MazeDatasetCollection(ccfg, members)
    thr = case.get("threshold", 100)
    lens = [len(ds) for ds in members]
    if thr is not None and any(ln == 0 and ln >= thr for ln in lens):
        raise Discard()
    if thr is not None and thr <= 0:
        raise Discard()
    channel = case["channel"]
    sig = f"C05:collection:{channel}"
    pre = [[len(m.solution) for m in ds.mazes] for ds in members]
    md.set_serialize_minimal_threshold(thr)
    try:
        if channel == "memory":
            data = call(f"{sig}:serialize", col.serialize)
            loaded = call(f"{sig}:load", MazeDatasetCollection.load, data)
        else:
            with core.TempDir() as td:
                path = os.path.join(td, "col.zanj")
                call(f"{sig}:save", col.save, path)
                loaded = call(f"{sig}:read", MazeDatasetCollection.read, path)
    finally:
        md.set_serialize_minimal_threshold(100)
    require(isinstance(loaded, MazeDatasetCollection), f"{sig}:type", f"{type(loaded)}")
    require(len(loaded.maze_datasets) == len(members), f"{sig}:members", f"{len(loaded.maze_datasets)} vs {len(members)}")
    require(loaded.cfg == col.cfg, f"{sig}:cfg-not-equal", f"diff={_diff(col.cfg, loaded.cfg)}")
    for j, (a, b) in enumerate(zip(members, loaded.maze_datasets)):
        _compare(f"{sig}:member", b, a, pre[j])
    minimal = thr is not None and any(ln >= thr for ln in lens)
    return {"nt": len(members) >= 2, "labels": [f"ch:{channel}", "route:" + case.get("route", "hand"), "some-member-minimal" if minimal else "all-full", "has-empty-member" if 0 in lens else "no-empty"] + (["shared-member-name"] if case.get("route") != "generate" and case.get("names") and len(set(case["names"])) < len(case["names"]) else [])}


# ------------------------------------------------------------------------------------------ strategies

_SAFE_FILTERS = ["path_length", "truncate_count", "start_end_distance", "remove_duplicates"]


@st.composite
def _gen_dataset(draw, n_hi, mazes_hi):
    spec = draw(G.dataset_spec(n_lo=2, n_hi=n_hi, mazes_lo=1, mazes_hi=mazes_hi, with_endpoint=False, filter_allow=_SAFE_FILTERS))
    return {"src": "gen", "spec": spec, "meta": draw(st.sampled_from(["fresh", "fresh", "collected", "stripped", "custom-filtered"]))}


@st.composite
def _hand_dataset(draw, n_hi, long_ok=True, min_items=1):
    n = draw(st.sampled_from(list(range(2, n_hi + 1))))
    items = []
    k = draw(st.integers(min_items, 6))
    for _ in range(k):
        kind = draw(st.sampled_from(["solved", "solved", "solved", "serp"]))
        if kind == "serp":
            items.append({"serp": draw(st.integers(1, n * n))})
        else:
            it = draw(G.solved_case(lo=n, hi=n, square=True))
            items.append({"g": it["g"], "sol": it["sol"]})
    case = {"src": "hand", "n": n, "items": items, "meta": draw(st.sampled_from(["none", "collected-only", "per-maze", "both"]))}
    off = draw(st.sampled_from([0, 0, 0, 1, 3, -1]))
    if off:
        case["n_mazes_off"] = off
    if long_ok and draw(st.integers(0, 7)) == 0:
        big = draw(st.sampled_from([12, 16, 17]))
        case["n"] = big
        case["items"] = [{"serp": draw(st.sampled_from([127, 128, 129, 144, 255, 256, 257, big * big]))}, {"serp": draw(st.integers(1, 5))}]
        case["items"] = [it for it in case["items"] if it["serp"] <= big * big]
    return case


@st.composite
def _beyond_128(draw):
    """grids of more than 128 cells per side: coordinates no longer fit the one-byte storage"""
    n = draw(st.sampled_from([130, 129, 150, 128, 200]))
    items = []
    for _ in range(draw(st.integers(1, 3))):
        ln = draw(st.sampled_from([1, 2, 40, 300]))
        row = draw(st.sampled_from([n - 1, 128, 127, n - 2, 0]))
        row = min(row, n - 1)
        items.append({"serp": ln, "from": max(0, min(n * n - ln, row * n + draw(st.integers(0, n - 1)) - ln // 2))})
    case = {"src": "hand", "n": n, "items": items, "meta": draw(st.sampled_from(["none", "per-maze", "collected-only"])),
            "fmt": draw(st.sampled_from(["minimal", "soln_cat", "full", "auto"])), "channel": draw(st.sampled_from(["memory", "memory", "file"]))}
    if case["fmt"] == "auto":
        case["threshold"] = draw(st.sampled_from([1, "len", None]))
    return case


@st.composite
def _case(draw, n_hi, mazes_hi):
    case = draw(st.one_of(_gen_dataset(n_hi, mazes_hi), _hand_dataset(n_hi)))
    case["fmt"] = draw(st.sampled_from(["full", "minimal", "soln_cat", "auto", "auto"]))
    if case["fmt"] == "auto":
        case["threshold"] = draw(st.sampled_from([None, 1, "len", "len+1", 100, 3]))
    case["channel"] = draw(st.sampled_from(["memory", "memory", "file"]))
    if case["channel"] == "file" and draw(st.booleans()):
        case["overwrite"] = draw(st.sampled_from(["reversed", "rotated"]))
    if draw(st.booleans()):
        case["again"] = {"op": draw(st.sampled_from(["reverse", "rotate", "swap", "subset", "mix", "same-object", "inplace-reverse", "inplace-swap", "inplace-replace", "inplace-assign"])), "k": draw(st.integers(0, 5)), "j": draw(st.integers(0, 3)),
                         "fmt": draw(st.sampled_from(["full", "minimal", "soln_cat"]))}
    return case


@st.composite
def _collection(draw):
    k = draw(st.integers(1, 4))
    members = []
    for _ in range(k):
        if draw(st.booleans()):
            m = draw(_gen_dataset(4, 6))
            if draw(st.integers(0, 3)) == 0:
                m["spec"]["n_mazes"] = 0
                m["meta"] = "fresh"
            m["spec"].pop("filters", None)
        else:
            m = draw(_hand_dataset(4, long_ok=False, min_items=0))
        members.append(m)
    thr = draw(st.sampled_from([None, 100, 100, 3, 2]))
    case = {"members": members, "threshold": thr, "channel": draw(st.sampled_from(["memory", "file"]))}
    if draw(st.booleans()):
        case["names"] = [draw(st.integers(0, max(0, k // 2))) for _ in range(k)]
    if draw(st.booleans()):
        # fields the collection configuration inherits from the generic dataset configuration
        case["ccfg"] = {"name": draw(st.sampled_from(["col", "my collection"])), "seq_len_min": draw(st.sampled_from([1, 4, 16])), "seq_len_max": draw(st.sampled_from([512, 1024, 77])),
                        "seed": draw(st.sampled_from([42, 0, 7]))}
    if all(m["src"] == "gen" for m in members) or draw(st.booleans()):
        case["route"] = "generate"
        case["members"] = [m if m["src"] == "gen" else draw(_gen_dataset(4, 6)) for m in members]
        for m in case["members"]:
            m["spec"].pop("filters", None)
            m["meta"] = "fresh"
    return case


@st.composite
def _large(draw):
    """sizes that cross ZANJ's external-storage thresholds and the default minimal threshold"""
    n_mazes = draw(st.sampled_from([100, 256, 99, 101, 255, 300]))
    spec = {"name": "big", "grid_n": draw(st.sampled_from([3, 4, 6])), "n_mazes": n_mazes, "ctor": draw(st.sampled_from(["gen_dfs", "gen_dfs_percolation"])),
            "kwargs": {}, "seed": draw(st.integers(0, 1000))}
    return {"src": "gen", "spec": spec, "meta": draw(st.sampled_from(["fresh", "collected", "stripped"])),
            "fmt": draw(st.sampled_from(["auto", "full", "minimal", "soln_cat"])), "threshold": 100, "channel": draw(st.sampled_from(["memory", "file"]))}


def subs(tier: str):
    q = tier == "quick"
    out = [
        Sub("datasets", check, "hypothesis", strategy=lambda: _case(6 if q else 8, 8 if q else 12), examples=120 if q else 4000),
        Sub("collections", check_collection, "hypothesis", strategy=_collection, examples=30 if q else 1000),
        Sub("grids-beyond-128", check, "hypothesis", strategy=_beyond_128, examples=2 if q else 25),
        Sub("large", check, "hypothesis", strategy=_large, examples=2 if q else 40),
        Sub("concurrent-threads", check_threads, "hypothesis", strategy=_threads, examples=4 if q else 40, ambient=False),
    ]
    return out
