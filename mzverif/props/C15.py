"""C15 - tokenizer configuration space is enumerated exactly and identified uniquely."""

from __future__ import annotations

import hashlib
import json
import os

from hypothesis import strategies as st

from mzverif import core
from mzverif import lib as L
from mzverif.core import Failure, Stats, Sub, Violation, call, require
from mzverif.props import C06

ID = "C15"
LEVEL = "exploration"
TECHNIQUE = "explicit product of the parameter space as reference: every element family exhaustively, metamorphic restriction of the real enumeration, histories of enumerations under different validators in one process, validity predicate on the raw space (340 step-tokenizer tuples), exhaustive Hamming neighbourhood of the legacy images, identity under use / save-load / ZANJ, differential across interpreters with different hash seeds, visiting orders and call histories; thorough: the full space of 5,878,656 tokenizers; abandoned enumerations, an interrupted first full enumeration (thorough), saved forms with reordered keys, validation functions by position and by keyword"
RULE = (
    "family case = element family (9); restriction case = (subset of coordinate, adjacency and path configurations accepted by extra "
    "validation functions) -> the enumeration must be exactly the explicit product; identity case = tokenizer parameter tuple (name, "
    "hash, equality, effect of use, round trip through serialize/load and through a ZANJ file). Non-trivial = tokenizer differing from "
    "the default in >= 2 parameters / restriction with >= 2 members in some family; thorough adds the full space."
)
ASSUMPTIONS = [
    "the reference parameter space is the one of C06 (9 x 216 x (2 x 1008 + 1008)); validity rules: pre=False adjacency tokenizers, unique step tokenizers, not (Distance,) alone, unsupported classes excluded",
    "hash stability across processes is asserted for tokenizers (MazeTokenizerModular), which is what the statement names",
]

N_TOTAL = 9 * 216 * (2 * 1008 + 1008)


def _families():
    from maze_dataset.tokenization import (
        AdjListTokenizers, CoordTokenizers, EdgeGroupings, EdgePermuters, EdgeSubsets, PathTokenizers, StepSizes, StepTokenizers, TargetTokenizers,
    )

    base = {"seq": "AOTP", "coord": C06.COORDS[0], "adj": C06.DEFAULT_ADJ, "target": {"post": False}, "path": C06.DEFAULT_PATH}

    def ps(p):
        return L.make_tokenizer(p).prompt_sequencer

    fam = {
        "coord": (CoordTokenizers._CoordTokenizer, [ps({**base, "coord": c}).coord_tokenizer for c in C06.COORDS]),
        "adj": (AdjListTokenizers._AdjListTokenizer, [ps({**base, "adj": a}).adj_list_tokenizer for a in C06.ADJS]),
        "path": (PathTokenizers._PathTokenizer, [ps({**base, "path": p}).path_tokenizer for p in C06.PATHS]),
        "target": (TargetTokenizers._TargetTokenizer, [TargetTokenizers.Unlabeled(post=False), TargetTokenizers.Unlabeled(post=True)]),
        "step_size": (StepSizes._StepSize, [StepSizes.Singles(), StepSizes.Forks()]),
        "step_tokenizer": (StepTokenizers._StepTokenizer, [StepTokenizers.Coord(), StepTokenizers.Cardinal(), StepTokenizers.Relative(), StepTokenizers.Distance()]),
        "edge_grouping": (EdgeGroupings._EdgeGrouping, [EdgeGroupings.Ungrouped(connection_token_ordinal=o) for o in (0, 1, 2)]),
        "edge_permuter": (EdgePermuters._EdgePermuter, [EdgePermuters.SortedCoords(), EdgePermuters.RandomCoords(), EdgePermuters.BothCoords()]),
        "edge_subset": (EdgeSubsets._EdgeSubset, [EdgeSubsets.AllLatticeEdges(), EdgeSubsets.ConnectionEdges(walls=False), EdgeSubsets.ConnectionEdges(walls=True)]),
    }
    return fam


FAMILY_NAMES = ["coord", "adj", "path", "target", "step_size", "step_tokenizer", "edge_grouping", "edge_permuter", "edge_subset"]


def _default_vf():
    from maze_dataset.tokenization.all_tokenizers import MAZE_TOKENIZER_MODULAR_DEFAULT_VALIDATION_FUNCS

    return dict(MAZE_TOKENIZER_MODULAR_DEFAULT_VALIDATION_FUNCS)


def check_family(case: dict):
    from maze_dataset.utils import all_instances

    cls, expected = _families()[case["family"]]
    got = call("C15:all_instances", lambda: list(all_instances(cls, _default_vf())))
    sig = f"C15:family:{case['family']}"
    # the validation functions handed over by keyword (as the library's own full enumeration does) give the same enumeration
    got_kw = call("C15:all_instances", lambda: list(all_instances(cls, validation_funcs=_default_vf())))
    require(sorted(x.name for x in got_kw) == sorted(x.name for x in got), f"{sig}:members", "enumeration with validation_funcs passed by keyword differs from the positional call")
    require(all(x.is_valid() for x in got), f"{sig}:invalid-member", f"{[x.name for x in got if not x.is_valid()][:3]}")
    gn, en = sorted(x.name for x in got), sorted(x.name for x in expected)
    require(len(set(en)) == len(en), "C15:harness:names-of-reference-not-distinct", "")
    require(len(got) == len(expected), f"{sig}:count", f"enumerated {len(got)}, parameter space has {len(expected)}")
    require(len(set(gn)) == len(gn), f"{sig}:duplicates", f"{len(gn) - len(set(gn))} duplicates in the enumeration")
    require(gn == en, f"{sig}:members", f"only enumerated: {sorted(set(gn) - set(en))[:3]}; missing: {sorted(set(en) - set(gn))[:3]}")
    byname = {x.name: x for x in expected}
    require(all(byname[x.name] == x for x in got), f"{sig}:equal-names-unequal-objects", "")
    return {"nt": len(expected) >= 3, "labels": [case["family"]]}


# restrictions on the *innermost* element classes (the ones that only occur inside tuples / fields of the path and adjacency tokenizers):
# name -> (family enumerated, which library class the extra validator is attached to, predicate on the library object, predicate on the parameter dict)
_INNER = {
    "no-relative": ("path", "StepTokenizers._StepTokenizer", lambda x: type(x).__name__ != "Relative", lambda p: "relative" not in p["steps"]),
    "no-distance": ("path", "StepTokenizers._StepTokenizer", lambda x: type(x).__name__ != "Distance", lambda p: "distance" not in p["steps"]),
    "no-cardinal": ("path", "StepTokenizers._StepTokenizer", lambda x: type(x).__name__ != "Cardinal", lambda p: "cardinal" not in p["steps"]),
    "only-forks": ("path", "StepSizes._StepSize", lambda x: type(x).__name__ == "Forks", lambda p: p["step_size"] == "forks"),
    "no-random-permuter": ("adj", "EdgePermuters._EdgePermuter", lambda x: type(x).__name__ != "RandomCoords", lambda a: a["permuter"] != "random"),
    "no-walls-subset": ("adj", "EdgeSubsets._EdgeSubset", lambda x: not getattr(x, "walls", False), lambda a: a["subset"] != "walls"),
    "ordinal-1-only": ("adj", "EdgeGroupings._EdgeGrouping", lambda x: getattr(x, "connection_token_ordinal", 1) == 1, lambda a: a["ordinal"] == 1),
    "none": (None, None, None, None),
}


def check_enum_history(case: dict):
    """a sequence of enumerations in one process, each under its own validation functions (the documented way to enumerate a sub-family);
    every one of them - in particular a plain enumeration after restricted ones - must be exactly the product its own functions predict"""
    import maze_dataset.tokenization as T
    from maze_dataset.utils import all_instances

    fam = _families()
    labels = []
    for step, (family, rest, *more) in enumerate(case["steps"]):
        cls, members = fam[family]
        params = C06.PATHS if family == "path" else C06.ADJS
        vf = _default_vf()
        keep = [True] * len(members)
        for name in rest:
            f_, owner, pred_obj, pred_par = _INNER[name]
            if f_ != family:
                # a restriction on a class the enumerated family does not contain: it must not matter
                if owner is None:
                    continue
            else:
                keep = [k and pred_par(p) for k, p in zip(keep, params)]
            holder, attr = owner.split(".")
            klass = getattr(getattr(T, holder), attr)
            prev = vf.get(klass)
            vf[klass] = (lambda pr, po: (lambda x: x.is_valid() and po(x) and (pr is None or pr(x))))(prev, pred_obj)
        if more and more[0]:
            # an enumeration that the caller abandons after a few items (a look at the first ones, a break out of a loop, an interrupt)
            it = iter(all_instances(cls, vf))
            for _ in range(more[0]):
                if next(it, None) is None:
                    break
            del it
            labels.append("abandoned-enumeration")
        # (the validation functions are handed over by position or by keyword - a pure function of the step)
        got = call("C15:all_instances:history", (lambda: list(all_instances(cls, vf))) if (step + len(rest)) % 2 == 0 else (lambda: list(all_instances(cls, validation_funcs=vf))))
        want = sorted(m.name for m, k in zip(members, keep) if k)
        gn = sorted(x.name for x in got)
        require(gn == want, "C15:enumeration-depends-on-earlier-enumerations" if step else "C15:restricted-family:members",
                f"step {step} ({family} under {rest}): enumerated {len(gn)}, the validation functions admit {len(want)}; "
                f"only enumerated {sorted(set(gn) - set(want))[:2]}, missing {sorted(set(want) - set(gn))[:2]}")
        labels.append(f"{family}:{'+'.join(rest) or 'plain'}")
    return {"nt": len(case["steps"]) >= 2, "labels": labels[:3]}


@st.composite
def _enum_history(draw):
    names = [k for k in _INNER if k != "none"]
    steps = draw(st.lists(st.tuples(st.sampled_from(["path", "path", "adj"]), st.lists(st.sampled_from(names), max_size=2, unique=True), st.sampled_from([0, 0, 0, 1, 7, 60])).map(list), min_size=2, max_size=4))
    if draw(st.booleans()):
        steps.append([steps[0][0], []])  # ... and a plain enumeration at the end
    return {"steps": steps}


def check_restriction(case: dict):
    """enumerate MazeTokenizerModular with extra validation functions accepting only chosen sub-families"""
    from maze_dataset.tokenization import AdjListTokenizers, CoordTokenizers, MazeTokenizerModular, PathTokenizers
    from maze_dataset.utils import all_instances

    fam = _families()
    C = [fam["coord"][1][i] for i in case["coord"]]
    A = [fam["adj"][1][i] for i in case["adj"]]
    P = [fam["path"][1][i] for i in case["path"]]
    vf = _default_vf()
    cs, as_, ps = set(x.name for x in C), set(x.name for x in A), set(x.name for x in P)
    vf[CoordTokenizers._CoordTokenizer] = lambda x: x.is_valid() and x.name in cs
    vf[AdjListTokenizers._AdjListTokenizer] = lambda x: x.is_valid() and x.name in as_
    vf[PathTokenizers._PathTokenizer] = lambda x: x.is_valid() and x.name in ps
    got = call("C15:all_instances:restricted", lambda: list(all_instances(MazeTokenizerModular, vf)))
    want_n = len(C) * len(A) * 2 * len(P) + len(C) * len(A) * len(P)
    names = [t.name for t in got]
    require(len(got) == want_n, "C15:restriction:count", f"enumerated {len(got)} tokenizers, product predicts {want_n} for |C|={len(C)} |A|={len(A)} |P|={len(P)}")
    require(len(set(names)) == len(names), "C15:restriction:duplicates", f"{len(names) - len(set(names))} duplicates")
    require(all(t.is_valid() for t in got), "C15:restriction:invalid-member", "")
    exp = set()
    for ci in case["coord"]:
        for ai in case["adj"]:
            for pi in case["path"]:
                base = {"coord": C06.COORDS[ci], "adj": C06.ADJS[ai], "path": C06.PATHS[pi]}
                exp.add(L.make_tokenizer({**base, "seq": "AOP"}).name)
                for tp in (False, True):
                    exp.add(L.make_tokenizer({**base, "seq": "AOTP", "target": {"post": tp}}).name)
    require(set(names) == exp, "C15:restriction:members", f"only enumerated: {sorted(set(names) - exp)[:2]}; missing: {sorted(exp - set(names))[:2]}")
    return {"nt": max(len(C), len(A), len(P)) >= 2, "labels": [f"size:{min(want_n, 99) // 10 * 10}+"]}


def _n_diff_from_default(t: dict) -> int:
    d = {"seq": "AOTP", "coord": 0, "adj.cls": "coord", "adj.post": True, "adj.shuffle_d0": True, "adj.ordinal": 1, "adj.subset": "conn", "adj.permuter": "random",
         "target.post": False, "path.step_size": "singles", "path.steps": 0, "path.pre": False, "path.intra": False, "path.post": False}
    return sum(1 for k, v in d.items() if t.get(k) != v)


def check_identity(case: dict):
    """two tokenizer tuples: names/hashes equal iff the tuples denote the same tokenizer; use does not change identity; round trips"""
    from maze_dataset.tokenization import MazeTokenizerModular

    ta, tb = case["a"], case["b"]
    pa, pb = C06.params_from_tuple(ta), C06.params_from_tuple(tb)
    a, a2, b = L.make_tokenizer(pa), L.make_tokenizer(pa), L.make_tokenizer(pb)
    same = json.dumps(pa, sort_keys=True) == json.dumps(pb, sort_keys=True)
    require(a == a2 and a.name == a2.name and hash(a) == hash(a2) and a.hash_int() == a2.hash_int() and a.hash_b64() == a2.hash_b64(),
            "C15:equal-tokenizers-differ", f"two tokenizers built from the same parameters differ in ==/name/hash: {a.name}")
    require((a == b) == same, "C15:equality-wrong", f"a == b is {a == b}, parameters equal: {same}")
    require((a.name == b.name) == same, "C15:name-not-injective", f"{a.name} vs {b.name}; parameters equal: {same}")
    require((hash(a) == hash(b)) == same and (a.hash_int() == b.hash_int()) == same, "C15:hash-not-injective", f"hash collision or mismatch for {a.name} / {b.name}")
    # identity must not depend on whether the tokenizer has been used
    n0, h0 = a.name, hash(a)
    for mz in _USE_MAZES:
        a.to_tokens(L.make_kind(mz["kind"], mz["g"], mz["sol"]))
    require(a.name == n0 and hash(a) == h0 and a == a2 and a.name == a2.name, "C15:identity-changed-by-use", f"name/hash changed after tokenizing: {n0} -> {a.name}")
    # save / load
    ser = call("C15:serialize", a.serialize)
    back = call("C15:load", MazeTokenizerModular.load, ser)
    require(back == a and back.name == a.name and hash(back) == hash(a), "C15:load-not-equal", f"loaded {back.name} from {a.name}")
    back2 = call("C15:load-json", MazeTokenizerModular.load, json.loads(json.dumps(ser, default=str)))
    require(back2 == a and back2.name == a.name, "C15:load-json-not-equal", f"loaded {back2.name} from {a.name}")
    # the members of a JSON object have no order: the same saved form written with its keys sorted, and with every object reversed
    def _rev(x):
        if isinstance(x, dict):
            return {k: _rev(x[k]) for k in reversed(list(x))}
        return [_rev(y) for y in x] if isinstance(x, list) else x

    for how, text in (("sorted", json.dumps(ser, default=str, sort_keys=True)), ("reversed", json.dumps(_rev(json.loads(json.dumps(ser, default=str)))))):
        back4 = call("C15:load-json", MazeTokenizerModular.load, json.loads(text))
        require(back4 == a and back4.name == a.name and hash(back4) == hash(a) and len({a, back4}) == 1, "C15:load-json-not-equal",
                f"saved form with keys {how}: loaded {back4.name} (hash equal: {hash(back4) == hash(a)}) from {a.name}")
    if case.get("zanj"):
        from zanj import ZANJ

        with core.TempDir() as td:
            path = os.path.join(td, "tok.zanj")
            call("C15:zanj-save", lambda: ZANJ().save(a, path))
            back3 = call("C15:zanj-read", lambda: ZANJ().read(path))
        require(back3 == a and back3.name == a.name and hash(back3) == hash(a), "C15:zanj-round-trip", f"read back {getattr(back3, 'name', type(back3))}")
    # legacy equivalence: exactly the two images report it
    legacy_images = {json.dumps(C06.params_from_tuple(_DEFAULT_TUPLE), sort_keys=True), json.dumps(C06.params_from_tuple({**_DEFAULT_TUPLE, "coord": 8}), sort_keys=True)}
    is_img = json.dumps(pa, sort_keys=True) in legacy_images
    require(bool(a.is_legacy_equivalent()) == is_img, "C15:legacy-equivalence-wrong", f"is_legacy_equivalent()={a.is_legacy_equivalent()} for {a.name}")
    return {"nt": _n_diff_from_default(ta) >= 2, "labels": ["same" if same else "different", "zanj" if case.get("zanj") else "memory"]}


_DEFAULT_TUPLE = {"seq": "AOTP", "coord": 0, "adj.cls": "coord", "adj.post": True, "adj.shuffle_d0": True, "adj.ordinal": 1, "adj.subset": "conn", "adj.permuter": "random",
                  "target.post": False, "path.step_size": "singles", "path.steps": 0, "path.pre": False, "path.intra": False, "path.post": False}
_USE_MAZES = [
    {"kind": "solved", "g": {"r": 3, "c": 3, "cl": "110011000110110000"}, "sol": [[0, 0], [1, 0], [2, 0], [2, 1]]},
    {"kind": "lattice", "g": {"r": 2, "c": 2, "cl": "10001000"}, "sol": [[0, 0]]},
]


def check_legacy_map(case: dict):
    from maze_dataset.tokenization import MazeTokenizer, MazeTokenizerModular, TokenizationMode

    mode = TokenizationMode[case["mode"]]
    for arg in (mode, MazeTokenizer(tokenization_mode=mode, max_grid_size=case.get("n"))):
        t = call("C15:from_legacy", MazeTokenizerModular.from_legacy, arg)
        require(t.is_legacy_equivalent(), "C15:from_legacy-not-legacy-equivalent", f"{case['mode']} -> {t.name}")
        require(t.is_valid(), "C15:from_legacy-invalid", t.name)
        want = C06.params_from_tuple(_DEFAULT_TUPLE if case["mode"] != "AOTP_CTT_indexed" else {**_DEFAULT_TUPLE, "coord": 8})
        require(t == L.make_tokenizer(want), "C15:from_legacy-wrong-image", f"{case['mode']} -> {t.name}")
    return {"nt": True, "labels": [case["mode"]]}


# ---- cross-process ---------------------------------------------------------------------------

_SUBPROC = r"""
import sys, json, warnings
warnings.filterwarnings("ignore")
sys.path.insert(0, {verif!r})
from mzverif import lib as L
from mzverif.props import C06
req = json.load(sys.stdin)
tuples, order, warm = (req["tuples"], req["order"], req.get("warm")) if isinstance(req, dict) else (req, list(range(len(req))), None)
if warm == "elements":
    # another call history: the parts are named on their own before any whole tokenizer is
    from maze_dataset.tokenization import EdgeGroupings, EdgeSubsets, StepTokenizers, TargetTokenizers
    [x.name for x in (EdgeGroupings.Ungrouped(connection_token_ordinal=1), EdgeGroupings.Ungrouped(connection_token_ordinal=0), EdgeSubsets.ConnectionEdges(walls=True),
                      TargetTokenizers.Unlabeled(post=True), StepTokenizers.Distance())]
elif warm == "use":
    from mzverif.props.C15 import _USE_MAZES
    L.make_tokenizer(C06.params_from_tuple(tuples[0])).to_tokens(L.make_kind(_USE_MAZES[0]["kind"], _USE_MAZES[0]["g"], _USE_MAZES[0]["sol"]))
out = [None] * len(tuples)
for i in order:
    tok = L.make_tokenizer(C06.params_from_tuple(tuples[i]))
    out[i] = [tok.name, hash(tok), tok.hash_int(), tok.hash_b64()]
print(json.dumps(out))
"""


@st.composite
def _tuple(draw):
    return {ax: draw(st.sampled_from(vals)) for ax, vals in C06.AXES.items()}


def _cross_process(n: int, hashseeds):
    def run(seed_val: int):
        stats = Stats()
        tuples = core.collect_examples(_tuple(), n, seed_val)
        # every interpreter gets its own hash seed, its own visiting order and its own call history before the first tokenizer is named
        outs = {}
        for k, hs in enumerate(hashseeds):
            order = list(range(len(tuples)))
            if k % 2 == 1:
                order.reverse()
            req = {"tuples": tuples, "order": order, "warm": [None, "elements", "use"][k % 3]}
            outs[hs] = json.loads(core.run_python(_SUBPROC.format(verif=core.VERIF_DIR), {"PYTHONHASHSEED": hs}, stdin=json.dumps(req)).strip().splitlines()[-1])
        fails = []
        for i, t in enumerate(tuples):
            tok = L.make_tokenizer(C06.params_from_tuple(t))
            mine = [tok.name, hash(tok), tok.hash_int(), tok.hash_b64()]
            vals = {hs: outs[hs][i] for hs in hashseeds}
            case = {"tuple": t, "hashseeds": list(hashseeds)}
            if all(v == mine for v in vals.values()):
                stats.record(case, {"nt": _n_diff_from_default(t) >= 2, "labels": ["cross-process"]})
            elif not fails:
                fails.append(Failure("cross-process", "C15:identity-differs-across-processes", f"parent={mine[:2]} others={ {k: v[:2] for k, v in vals.items()} }", case))
        stats.extra["processes"] = len(hashseeds) + 1
        return stats, fails

    return run


def _replay_cross(case):
    t = case["tuple"]
    vals = set()
    for k, hs in enumerate(case.get("hashseeds", ["0", "1"])):
        req = {"tuples": [t], "order": [0], "warm": [None, "elements", "use"][k % 3]}
        vals.add(json.dumps(json.loads(core.run_python(_SUBPROC.format(verif=core.VERIF_DIR), {"PYTHONHASHSEED": hs}, stdin=json.dumps(req)).strip().splitlines()[-1])[0]))
    tok = L.make_tokenizer(C06.params_from_tuple(t))
    vals.add(json.dumps([tok.name, hash(tok), tok.hash_int(), tok.hash_b64()]))
    require(len(vals) == 1, "C15:identity-differs-across-processes", f"{vals}")
    return {"nt": True, "labels": []}


# ---- the full space (thorough) ---------------------------------------------------------------


def _digest_chunk(lo, hi):
    """128-bit name digests, python hashes, validity and legacy flags for ALL[lo:hi] (ALL is inherited through fork)"""
    out_d, out_h, bad, legacy = [], [], 0, []
    for t in _ALL[lo:hi]:
        nm = t.name
        out_d.append(hashlib.blake2b(nm.encode(), digest_size=16).digest())
        out_h.append(hash(t))
        if not t.is_valid():
            bad += 1
        if t.is_legacy_equivalent():
            legacy.append(nm)
    return out_d, out_h, bad, legacy


_ALL: list = []


def _full_space(seed_val: int):
    global _ALL
    from maze_dataset.tokenization.all_tokenizers import all_tokenizers_set, get_all_tokenizers, sample_tokenizers_for_test

    stats = Stats()
    fails: list = []

    def fail(sig, msg):
        fails.append(Failure("full-space", sig, msg, {"full_space": True}))

    # the first call is interrupted part-way (an exception arrives while the library is handing out tokenizers, as Ctrl-C would); the next
    # call is the one that is checked - what an interrupted call left behind must not be handed out as the enumeration. The exception is
    # raised from the harness' side: the constructor of the enumerated class is wrapped for the duration of that first call only.
    from maze_dataset.tokenization import MazeTokenizerModular as _MTM

    class _Interrupt(BaseException):
        pass

    orig_init = _MTM.__init__
    count = {"n": 0, "at": 500 + seed_val % 4000}

    def counting_init(self, *a, **kw):
        count["n"] += 1
        if count["n"] == count["at"]:
            raise _Interrupt()
        return orig_init(self, *a, **kw)

    _MTM.__init__ = counting_init
    try:
        get_all_tokenizers()
        stats.labels["first-call-finished-before-the-interrupt"] += 1
    except _Interrupt:
        stats.labels["first-call-interrupted"] += 1
    finally:
        _MTM.__init__ = orig_init
    _ALL = call("C15:get_all_tokenizers", get_all_tokenizers)
    n = len(_ALL)
    if n != N_TOTAL:
        fail("C15:full:count", f"enumeration has {n} tokenizers, parameter space has {N_TOTAL}")
    step = 20000
    tasks = [(_digest_chunk, (lo, min(n, lo + step))) for lo in range(0, n, step)]
    res = core.parallel(tasks)
    digests, hashes, bad, legacy = [], [], 0, []
    for d, h, b, lg in res:
        digests += d
        hashes += h
        bad += b
        legacy += lg
    if bad:
        fail("C15:full:invalid-member", f"{bad} enumerated tokenizers are not valid")
    if len(set(digests)) != n:
        fail("C15:full:names-not-distinct", f"{n - len(set(digests))} name collisions")
    if len(set(hashes)) != n:
        fail("C15:full:hashes-not-distinct", f"{n - len(set(hashes))} hash collisions")
    # names == names of the explicit product (digest sets)
    exp = set()
    for ci, c in enumerate(C06.COORDS):
        for a in C06.ADJS:
            base = L.make_tokenizer({"seq": "AOP", "coord": c, "adj": a, "path": C06.DEFAULT_PATH}).prompt_sequencer
            cname, aname = base.coord_tokenizer.name, base.adj_list_tokenizer.name
            for pname in _path_names():
                exp.add(hashlib.blake2b(f"MazeTokenizerModular-AOP({cname}, {aname}, {pname})".encode(), digest_size=16).digest())
                for tp in ("F", "T"):
                    exp.add(hashlib.blake2b(f"MazeTokenizerModular-AOTP({cname}, {aname}, Unlabeled(post={tp}), {pname})".encode(), digest_size=16).digest())
    if exp != set(digests):
        fail("C15:full:members", f"{len(set(digests) - exp)} enumerated tokenizers are not in the parameter space, {len(exp - set(digests))} are missing")
    want_legacy = sorted([L.make_tokenizer(C06.params_from_tuple(_DEFAULT_TUPLE)).name, L.make_tokenizer(C06.params_from_tuple({**_DEFAULT_TUPLE, "coord": 8})).name])
    if sorted(legacy) != want_legacy:
        fail("C15:full:legacy-equivalent-set", f"{len(legacy)} tokenizers report legacy equivalence: {sorted(legacy)[:4]}")
    # the set view must stay complete after sampling from it
    sample_tokenizers_for_test(5)
    s = all_tokenizers_set()
    if len(s) != N_TOTAL or L.make_tokenizer(C06.params_from_tuple(_DEFAULT_TUPLE)) not in s:
        fail("C15:full:set-view-incomplete", f"all_tokenizers_set() has {len(s)} members after sampling (default tokenizer present: {L.make_tokenizer(C06.params_from_tuple(_DEFAULT_TUPLE)) in s})")
    if len(call("C15:get_all_tokenizers", get_all_tokenizers)) != N_TOTAL:
        fail("C15:full:count-after-sampling", "enumeration changed after sampling")
    stats.evaluations = n
    stats.nontrivial = set(int.from_bytes(d[:8], "big") for d in digests[:: max(1, n // 200000)])
    stats.samples = [{"name": _ALL[i].name} for i in (0, n // 2, n - 1)]
    stats.extra["full_space_size"] = n
    _ALL = []
    return stats, fails


def _path_names():
    if not hasattr(_path_names, "v"):
        _path_names.v = [L.make_tokenizer({"seq": "AOP", "coord": C06.COORDS[0], "adj": C06.DEFAULT_ADJ, "path": p}).prompt_sequencer.path_tokenizer.name for p in C06.PATHS]
    return _path_names.v


def _check_full_name_format(case):
    """harness self-check used by the full-space comparison: names are assembled as '<Class>(<members>)'"""
    p = C06.params_from_tuple(case["tuple"])
    t = L.make_tokenizer(p)
    ps = t.prompt_sequencer
    if p["seq"] == "AOP":
        want = f"MazeTokenizerModular-AOP({ps.coord_tokenizer.name}, {ps.adj_list_tokenizer.name}, {ps.path_tokenizer.name})"
    else:
        want = f"MazeTokenizerModular-AOTP({ps.coord_tokenizer.name}, {ps.adj_list_tokenizer.name}, {ps.target_tokenizer.name}, {ps.path_tokenizer.name})"
    require(t.name == want, "C15:name-format", f"{t.name} vs {want}")
    return {"nt": True, "labels": []}


# ---- strategies --------------------------------------------------------------------------


@st.composite
def _restriction(draw):
    sz = st.integers(1, 3)
    return {
        "coord": draw(st.lists(st.integers(0, 8), min_size=1, max_size=draw(sz), unique=True)),
        "adj": draw(st.lists(st.integers(0, 215), min_size=1, max_size=draw(sz), unique=True)),
        "path": draw(st.lists(st.integers(0, 1007), min_size=1, max_size=draw(sz), unique=True)),
    }


@st.composite
def _identity(draw):
    a = draw(_tuple())
    mode = draw(st.sampled_from(["same", "one-axis", "one-axis", "independent", "default", "legacy-ctt"]))
    if mode == "default":
        a = dict(_DEFAULT_TUPLE)
        if draw(st.booleans()):
            ax = draw(st.sampled_from([x for x in C06.AXIS_NAMES]))
            a[ax] = draw(st.sampled_from(C06.AXES[ax]))
    elif mode == "legacy-ctt":
        a = {**_DEFAULT_TUPLE, "coord": 8}
    b = dict(a)
    if mode == "one-axis":
        ax = draw(st.sampled_from(C06.AXIS_NAMES))
        b[ax] = draw(st.sampled_from([v for v in C06.AXES[ax] if v != a[ax]]))
    elif mode == "independent":
        b = draw(_tuple())
    return {"a": a, "b": b, "zanj": draw(st.integers(0, 9)) == 0}


def _family_cases(shard, nshards):
    for k, f in enumerate(FAMILY_NAMES):
        if k % nshards == shard:
            yield {"family": f}


def check_validity_rule(case: dict):
    """the validity predicate itself, on the raw parameter space (also the configurations the enumeration must leave out): a path
    tokenizer is valid iff its step tokenizers are pairwise distinct and are not `Distance` alone; a tokenizer is valid iff its parts are"""
    from maze_dataset.tokenization import MazeTokenizerModular, PathTokenizers, PromptSequencers, StepSizes, StepTokenizers

    kinds = {"coord": StepTokenizers.Coord, "cardinal": StepTokenizers.Cardinal, "relative": StepTokenizers.Relative, "distance": StepTokenizers.Distance}
    steps = tuple(kinds[k]() for k in case["steps"])
    want = len(set(case["steps"])) == len(case["steps"]) and list(case["steps"]) != ["distance"]
    pt = call("C15:construct", lambda: PathTokenizers.StepSequence(step_size=StepSizes.Singles() if case["size"] == "singles" else StepSizes.Forks(), step_tokenizers=steps,
                                                                   pre=case["pre"], intra=case["intra"], post=case["post"]))
    got = bool(call("C15:is_valid", pt.is_valid))
    require(got == want, "C15:validity-rule", f"StepSequence with step tokenizers {case['steps']}: is_valid()={got}, the rule (pairwise distinct, not Distance alone) says {want}")
    tok = MazeTokenizerModular(prompt_sequencer=PromptSequencers.AOTP(path_tokenizer=pt))
    got2 = bool(call("C15:is_valid", tok.is_valid))
    require(got2 == want, "C15:validity-rule", f"tokenizer built on step tokenizers {case['steps']}: is_valid()={got2}, rule says {want}")
    return {"nt": not want, "labels": ["valid" if want else "invalid"]}


def _validity_cases(shard, nshards):
    import itertools

    k = 0
    for n in (1, 2, 3, 4):
        for steps in itertools.product(C06.STEP_KINDS, repeat=n):
            k += 1
            if k % nshards != shard:
                continue
            yield {"steps": list(steps), "size": ("singles", "forks")[k % 2], "pre": bool(k & 2), "intra": bool(k & 4), "post": bool(k & 8)}


def check_legacy_neighbour(case: dict):
    """a tokenizer at Hamming distance <= 2 (over the 14 parameter axes) from a legacy image reports legacy equivalence iff it IS an image"""
    pa = C06.params_from_tuple(case["tuple"])
    a = L.make_tokenizer(pa)
    images = {json.dumps(C06.params_from_tuple(_DEFAULT_TUPLE), sort_keys=True), json.dumps(C06.params_from_tuple({**_DEFAULT_TUPLE, "coord": 8}), sort_keys=True)}
    is_img = json.dumps(pa, sort_keys=True) in images
    got = bool(call("C15:is_legacy_equivalent", a.is_legacy_equivalent))
    require(got == is_img, "C15:legacy-equivalence-wrong", f"is_legacy_equivalent()={got} for {a.name}, which {'is' if is_img else 'is not'} the image of a legacy mode (differs from it in {case['axes']})")
    return {"nt": not is_img, "labels": [f"distance:{len(case['axes'])}"]}


def _legacy_neighbour_cases(shard, nshards, radius=2):
    import itertools

    k = 0
    for base in (_DEFAULT_TUPLE, {**_DEFAULT_TUPLE, "coord": 8}):
        for r in range(radius + 1):
            for axes in itertools.combinations(C06.AXIS_NAMES, r):
                for vals in itertools.product(*[[v for v in C06.AXES[ax] if v != base[ax]] for ax in axes]):
                    k += 1
                    if k % nshards == shard:
                        yield {"tuple": {**base, **dict(zip(axes, vals))}, "axes": list(axes)}


def _legacy_cases(shard, nshards):
    for k, m in enumerate(["AOTP_UT_rasterized", "AOTP_UT_uniform", "AOTP_CTT_indexed"]):
        if k % nshards == shard:
            yield {"mode": m, "n": [None, 5, 10][k]}


def subs(tier: str):
    q = tier == "quick"
    out = [
        Sub("element-families", check_family, "exhaustive", cases=_family_cases, exhaustive_flag=True),
        Sub("restricted-enumeration", check_restriction, "hypothesis", strategy=_restriction, examples=10 if q else 400),
        Sub("enumeration-histories", check_enum_history, "hypothesis", strategy=_enum_history, examples=6 if q else 200),
        Sub("identity", check_identity, "hypothesis", strategy=_identity, examples=100 if q else 6000),
        Sub("validity-rule", check_validity_rule, "exhaustive", cases=_validity_cases, exhaustive_flag=True),
        Sub("legacy-map", check_legacy_map, "exhaustive", cases=_legacy_cases, exhaustive_flag=True),
        Sub("legacy-neighbourhood", check_legacy_neighbour, "exhaustive", cases=(lambda sh, n: _legacy_neighbour_cases(sh, n, 2 if q else 3)), exhaustive_flag=True),
        Sub("cross-process", _replay_cross, "custom", run=_cross_process(150 if q else 600, ["0", "1", "4242"] if q else ["0", "1", "4242", "random", "31337"])),
    ]
    if not q:
        out.append(Sub("full-space", _noop, "custom", run=_full_space))
    return out


def _noop(case):
    return None
