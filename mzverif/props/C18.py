"""C18 - configurations round-trip exactly and have stable, discriminating identities."""

from __future__ import annotations

import json

from hypothesis import strategies as st

from mzverif import core
from mzverif import gen as G
from mzverif import lib as L
from mzverif.core import Failure, Stats, Sub, Violation, call, require

ID = "C18"
LEVEL = "exploration"
TECHNIQUE = "Hypothesis over the cross product of configuration fields (option key order, None-valued and repeated filter records included); oracles = round trip (dict and JSON text), one-field metamorphic variants (hash must change), in-place edits after hashing, load histories (loaded copies edited in place must not leak into later loads), ingredients of the file name (names up to 180 characters), differential across sub-interpreters with different PYTHONHASHSEED; identity re-read while other (collection) configurations are serialized in between; every endpoint option incl. except_when_invalid"
RULE = (
    "case = JSON spec (name, grid_n, n_mazes, generator, kwargs, endpoint options, seed, recorded filters) [+ which single field to "
    "vary, which field to edit in place after hashing]. Sub-interpreter check: the same specs hashed under PYTHONHASHSEED in {0,1,4242,random}. Non-trivial = spec with non-empty "
    "endpoint options or >= 1 recorded filter; distinct by canonical case digest."
)
ASSUMPTIONS = [
    "generator kwargs are JSON-native values (numbers, bools, coordinate lists), as produced by loading a stored config",
    "file-name oracle reuses muutils.sanitize_fname / shorten_numerical_to_str (third party, not under test)",
]

FIELDS = ["name", "grid_n", "n_mazes", "ctor", "kwargs", "endpoint", "seed", "filters"]


def _variant(spec: dict, fld: str) -> dict:
    v = L.json_copy(spec)
    if fld == "name":
        v["name"] = spec["name"] + "z"
    elif fld == "grid_n":
        v["grid_n"] = spec["grid_n"] + 1
    elif fld == "n_mazes":
        v["n_mazes"] = spec["n_mazes"] + 1
    elif fld == "ctor":
        v["ctor"] = "gen_wilson" if spec["ctor"] != "gen_wilson" else "gen_percolation"
        v["kwargs"] = {}
        if spec.get("kwargs"):
            raise core.Discard()
    elif fld == "kwargs":
        if spec["ctor"] == "gen_wilson":
            raise core.Discard()
        kw = dict(spec.get("kwargs", {}))
        if spec["ctor"] in ("gen_percolation", "gen_dfs_percolation"):
            kw["p"] = 0.123 if kw.get("p") != 0.123 else 0.321
        else:
            kw["do_forks"] = not kw.get("do_forks", True)
        v["kwargs"] = kw
    elif fld == "endpoint":
        ep = dict(spec.get("endpoint", {}))
        ep["deadend_start"] = not ep.get("deadend_start", False)
        v["endpoint"] = ep
    elif fld == "seed":
        v["seed"] = (spec.get("seed", 42) + 1) % (2**31)
    elif fld == "filters":
        v["filters"] = list(spec.get("filters", [])) + [{"name": "path_length", "args": [], "kwargs": {"min_length": 3}}]
    return v


def _fname_oracle(cfg) -> str:
    from muutils.misc import sanitize_fname, shorten_numerical_to_str

    return sanitize_fname(
        f"{cfg.name}-g{cfg.grid_n}-n{shorten_numerical_to_str(cfg.n_mazes)}-a_{cfg.maze_ctor.__name__.removeprefix('gen_')}-h{cfg.stable_hash_cfg() % 10**5}"
    )


def check(case: dict):
    from maze_dataset import MazeDatasetConfig
    from maze_dataset.generation.generators import GENERATORS_MAP

    spec = case["spec"]
    c = L.make_cfg(spec)
    h0, fn0 = call("C18:stable_hash_cfg", c.stable_hash_cfg), call("C18:to_fname", c.to_fname)
    ser = call("C18:serialize", c.serialize)
    if core.digest(case) % 3 == 0:
        # other configurations are serialized / named / hashed in between - among them a collection listing a configuration with the same
        # generator. A configuration's identity depends on its own content only, whatever else the process has looked at.
        from maze_dataset.dataset.collected_dataset import MazeDatasetCollectionConfig

        try:
            plain = {k: v for k, v in spec.items() if k != "built"}
            cc = MazeDatasetCollectionConfig(name="around", maze_dataset_configs=[L.make_cfg(plain), L.make_cfg({"name": "other", "grid_n": 3, "n_mazes": 2, "ctor": spec.get("ctor", "gen_dfs"), "seed": 9})])
            cc.serialize(), cc.to_fname(), cc.stable_hash_cfg(), cc.summary()
            MazeDatasetCollectionConfig.load(json.loads(json.dumps(cc.serialize())))
        except Exception:  # noqa: BLE001 - what the collection configuration answers is the collections sub-check's business
            pass
    for route, data in (("dict", ser), ("json", None)):
        if route == "json":
            txt = call("C18:json.dumps", json.dumps, ser)
            data = json.loads(txt)
        c2 = call(f"C18:load:{route}", MazeDatasetConfig.load, data)
        require(c2 == c, f"C18:{route}:not-equal", f"loaded config != original; diff={_safe_diff(c, c2)}")
        require(c2.maze_ctor is GENERATORS_MAP[spec.get("ctor", "gen_dfs")], f"C18:{route}:generator", f"{c2.maze_ctor} for {spec.get('ctor')}")
        require(c2.maze_ctor_kwargs == c.maze_ctor_kwargs, f"C18:{route}:kwargs", f"{c2.maze_ctor_kwargs} vs {c.maze_ctor_kwargs}")
        require(c2.endpoint_kwargs == c.endpoint_kwargs, f"C18:{route}:endpoint-kwargs", f"{c2.endpoint_kwargs} vs {c.endpoint_kwargs}")
        for k, v in c2.endpoint_kwargs.items():
            if isinstance(v, list):
                require(all(isinstance(x, tuple) for x in v), f"C18:{route}:coords-not-tuples", f"{k}={v}")
        require(c2.seed == c.seed and c2.name == c.name and c2.grid_n == c.grid_n and c2.n_mazes == c.n_mazes,
                f"C18:{route}:scalar-field", f"name/grid_n/n_mazes/seed: {(c2.name, c2.grid_n, c2.n_mazes, c2.seed)} vs {(c.name, c.grid_n, c.n_mazes, c.seed)}")
        require(c2.applied_filters == c.applied_filters, f"C18:{route}:filters", f"{c2.applied_filters} vs {c.applied_filters}")
        for f in c2.applied_filters:
            require(isinstance(f["args"], tuple), f"C18:{route}:filter-args-not-tuple", f"{f}")
        d = call(f"C18:diff:{route}", c.diff, c2)
        require(d == {}, f"C18:{route}:diff-nonempty", f"{d}")
        require(c2.stable_hash_cfg() == c.stable_hash_cfg(), f"C18:{route}:hash-changed", "hash differs after round trip")
        require(c2.to_fname() == c.to_fname(), f"C18:{route}:fname-changed", f"{c2.to_fname()} vs {c.to_fname()}")
    # equal content, independently built -> equal hash; file name as documented
    c3 = L.make_cfg(L.json_copy(spec))
    require(c3.stable_hash_cfg() == c.stable_hash_cfg(), "C18:hash-not-content-based", "two configs built from the same spec hash differently")
    require(c3.stable_hash_cfg() == h0 and c3.to_fname() == fn0 and c.to_fname() == fn0, "C18:hash-not-content-based",
            f"hash / file name of an equal configuration changed while other configurations were used: {h0} {fn0} -> {c3.stable_hash_cfg()} {c3.to_fname()}")
    fn = call("C18:to_fname", c.to_fname)
    # "built from the name, grid size, maze count, generator and the last five digits of that hash": every ingredient must be in it
    # (how they are joined / abbreviated beyond that is the library's choice)
    from muutils.misc import sanitize_fname, shorten_numerical_to_str

    parts = {"name": sanitize_fname(str(c.name)), "grid size": str(c.grid_n), "maze count": shorten_numerical_to_str(c.n_mazes),
             "generator": c.maze_ctor.__name__.removeprefix("gen_"), "hash digits": str(c.stable_hash_cfg() % 10**5)}
    if len(parts["name"]) > 64:
        parts["name"] = parts["name"][:32]  # (a very long name may be abbreviated - the statement does not say it appears in full)
    missing = [k for k, v in parts.items() if v not in fn and not (k == "maze count" and str(c.n_mazes) in fn)]
    require(not missing, "C18:fname", f"{fn} lacks {missing} (expected ingredients {parts})")
    labels = [spec["ctor"]]
    for fld in case.get("vary", []):
        try:
            vs = _variant(spec, fld)
        except core.Discard:
            continue
        v = L.make_cfg(vs)
        require(v.stable_hash_cfg() != c.stable_hash_cfg(), f"C18:hash-ignores:{fld}", f"configs differing only in {fld} have the same hash; spec={spec}")
        if fld != "n_mazes":
            require(v != c, f"C18:eq-ignores:{fld}", f"configs differing only in {fld} compare equal")
        labels.append(f"vary:{fld}")
    # history: the hash follows the content when a configuration that was already hashed is edited in place
    for fld in case.get("edit", []):
        try:
            vs = _variant(spec, fld)
        except core.Discard:
            continue
        live = L.make_cfg(spec)
        live.stable_hash_cfg(), live.to_fname()
        target = L.make_cfg(vs)
        if fld == "name":
            live.name = target.name
        elif fld == "grid_n":
            live.grid_n = target.grid_n
        elif fld == "n_mazes":
            live.n_mazes = target.n_mazes
        elif fld == "ctor":
            live.maze_ctor = target.maze_ctor
            live.maze_ctor_kwargs.clear()
        elif fld == "kwargs":
            live.maze_ctor_kwargs.update(target.maze_ctor_kwargs)
        elif fld == "endpoint":
            live.endpoint_kwargs.update(target.endpoint_kwargs)
        elif fld == "seed":
            live.seed = target.seed
        elif fld == "filters":
            live.applied_filters.append(target.applied_filters[-1])
        require(live.stable_hash_cfg() == target.stable_hash_cfg() and live.to_fname() == target.to_fname(), f"C18:stale-hash-after-editing:{fld}",
                f"a config hashed, then edited in place ({fld}) hashes {live.stable_hash_cfg()} / {live.to_fname()}, an equal fresh config {target.stable_hash_cfg()} / {target.to_fname()}")
        labels.append(f"edit:{fld}")
    nt = bool(spec.get("endpoint")) or bool(spec.get("filters"))
    return {"nt": nt, "labels": labels}


def check_history(case: dict):
    """several configurations loaded one after the other in one process; every loaded copy is edited in place afterwards (its
    generator arguments, endpoint options, recorded filters). A later round trip must not see what was done to an earlier copy."""
    from maze_dataset import MazeDatasetConfig

    labels = []
    for k, step in enumerate(case["steps"]):
        spec = step["spec"]
        c = L.make_cfg(spec)
        h0 = c.stable_hash_cfg()
        data = json.loads(json.dumps(call("C18:history:serialize", c.serialize)))
        c2 = call("C18:history:load", MazeDatasetConfig.load, data)
        hist = f"step {k} of {len(case['steps'])}; earlier loaded copies were edited with {[s_['edit'] for s_ in case['steps'][:k]]}"
        require(c2.maze_ctor_kwargs == dict(spec.get("kwargs", {})), "C18:history:kwargs", f"loaded generator arguments {c2.maze_ctor_kwargs}, stored {spec.get('kwargs', {})}; {hist}")
        require(c2.endpoint_kwargs == c.endpoint_kwargs, "C18:history:endpoint-kwargs", f"loaded {c2.endpoint_kwargs}, stored {c.endpoint_kwargs}; {hist}")
        require(c2.applied_filters == c.applied_filters, "C18:history:filters", f"loaded {c2.applied_filters}, stored {c.applied_filters}; {hist}")
        require(c2 == c and c2.stable_hash_cfg() == h0 == L.make_cfg(spec).stable_hash_cfg(), "C18:history:not-equal", f"loaded config differs from the one stored: {_safe_diff(c, c2)}; {hist}")
        for e in step["edit"]:
            if e == "kwargs":
                c2.maze_ctor_kwargs["do_forks"] = False
                c2.maze_ctor_kwargs["p"] = 0.77
            elif e == "endpoint":
                c2.endpoint_kwargs["deadend_start"] = True
                c2.endpoint_kwargs["allowed_end"] = [(0, 0)]
            elif e == "filters":
                c2.applied_filters.append({"name": "path_length", "args": (5,), "kwargs": {}})
            labels.append(f"edit:{e}")
    empties = sum(1 for st_ in case["steps"] if not st_["spec"].get("kwargs"))
    return {"nt": len(case["steps"]) >= 2 and empties >= 2, "labels": labels}


@st.composite
def _history(draw):
    steps = []
    for _ in range(draw(st.integers(2, 5))):
        spec = draw(G.dataset_spec(n_lo=2, n_hi=6, mazes_lo=0, mazes_hi=200, satisfiable_bias=False))
        # empty containers are where a shared default would live
        for key in ("kwargs", "endpoint", "filters"):
            if draw(st.booleans()):
                spec.pop(key, None)
                if key == "kwargs":
                    spec["kwargs"] = {}
        steps.append({"spec": spec, "edit": draw(st.lists(st.sampled_from(["kwargs", "endpoint", "filters"]), unique=True, max_size=3))})
    return {"steps": steps}


def _safe_diff(a, b):
    try:
        return a.diff(b)
    except Exception as e:  # noqa: BLE001
        return f"<diff failed: {e}>"


def check_collection(case: dict):
    from maze_dataset import MazeDatasetCollectionConfig
    from muutils.misc import sanitize_fname, shorten_numerical_to_str

    specs = case["specs"]
    mk = lambda: MazeDatasetCollectionConfig(name=case["name"], maze_dataset_configs=[L.make_cfg(s) for s in specs])  # noqa: E731
    c = mk()
    ser = call("C18:collection:serialize", c.serialize)
    for route, data in (("dict", ser), ("json", json.loads(json.dumps(ser)))):
        c2 = call(f"C18:collection:load:{route}", MazeDatasetCollectionConfig.load, data)
        require(c2 == c, f"C18:collection:{route}:not-equal", "loaded collection config != original")
        require([m.n_mazes for m in c2.maze_dataset_configs] == [s["n_mazes"] for s in specs], f"C18:collection:{route}:n_mazes", "member maze counts changed")
        require(c2.stable_hash_cfg() == c.stable_hash_cfg(), f"C18:collection:{route}:hash-changed", "")
    require(mk().stable_hash_cfg() == c.stable_hash_cfg(), "C18:collection:hash-not-content-based", "")
    want = sanitize_fname(f"collected-{c.name}-n{shorten_numerical_to_str(sum(s['n_mazes'] for s in specs))}-h{c.stable_hash_cfg() % 10**5}")
    require(c.to_fname() == want, "C18:collection:fname", f"{c.to_fname()} vs {want}")
    return {"nt": len(specs) >= 2, "labels": ["collection"]}


_LONG = "sweep-lr0.001-bs64-wd0.01-seed7-percolation-ablation-no-deadends-curriculum-stage3-replica-b"
_NAMES = st.sampled_from(["cfg", "test", "a-b_c", "x1", "My Data", "name.with.dots", "ünï", "p/q", _LONG, _LONG + "-" + _LONG[:40], "n" * 180])


@st.composite
def _case(draw, vary: bool):
    spec = draw(G.dataset_spec(n_lo=1, n_hi=8, mazes_lo=0, mazes_hi=20000, names=_NAMES, satisfiable_bias=False))
    case = {"spec": spec}
    if vary:
        case["vary"] = list(FIELDS)
        case["edit"] = list(FIELDS)
    return case


@st.composite
def _collection(draw):
    specs = draw(st.lists(G.dataset_spec(n_lo=2, n_hi=5, mazes_hi=50), min_size=1, max_size=3))
    for j, s in enumerate(specs):
        s["name"] = f"m{j}"
    return {"name": draw(st.sampled_from(["col", "c 2"])), "specs": specs}


_SUBPROC = r"""
import sys, json, warnings
warnings.filterwarnings("ignore")
sys.path.insert(0, {verif!r})
from mzverif import lib as L
specs = json.load(sys.stdin)
out = []
for s in specs:
    c = L.make_cfg(s)
    out.append([c.stable_hash_cfg(), c.to_fname(), hash(json.dumps(c.serialize(), default=str)) != 0])
print(json.dumps(out))
"""


def _cross_process(n_specs: int, hashseeds: list[str]):
    def run(seed_val: int):
        stats = Stats()
        specs = [c["spec"] for c in core.collect_examples(_case(False), n_specs, seed_val)]
        outs = {}
        for hs in hashseeds:
            txt = core.run_python(_SUBPROC.format(verif=core.VERIF_DIR), {"PYTHONHASHSEED": hs}, stdin=json.dumps(specs))
            outs[hs] = json.loads(txt.strip().splitlines()[-1])
        # the parent's own values count as one more process
        base = [[L.make_cfg(s).stable_hash_cfg(), L.make_cfg(s).to_fname()] for s in specs]
        fails = []
        for i, s in enumerate(specs):
            vals = {hs: outs[hs][i][:2] for hs in hashseeds}
            vals["parent"] = base[i]
            ok = all(v == base[i] for v in vals.values())
            info = {"nt": bool(s.get("endpoint")) or bool(s.get("filters")), "labels": ["cross-process"]}
            case = {"spec": s, "hashseeds": hashseeds}
            if ok:
                stats.record(case, info)
            elif not fails:
                fails.append(Failure("cross-process", "C18:hash-differs-across-processes", f"{vals}", case))
        stats.extra["processes"] = len(hashseeds) + 1
        return stats, fails

    return run


def _replay_cross(case):
    """replay entry for the cross-process sub-check: fresh interpreters with the recorded hash seeds + this process"""
    s = case["spec"]
    vals = set()
    for hs in case.get("hashseeds", ["0", "1"]):
        txt = core.run_python(_SUBPROC.format(verif=core.VERIF_DIR), {"PYTHONHASHSEED": hs}, stdin=json.dumps([s]))
        vals.add(json.dumps(json.loads(txt.strip().splitlines()[-1])[0][:2]))
    c = L.make_cfg(s)
    vals.add(json.dumps([c.stable_hash_cfg(), c.to_fname()]))
    require(len(vals) == 1, "C18:hash-differs-across-processes", f"{vals}")
    return {"nt": True, "labels": []}


def subs(tier: str):
    q = tier == "quick"
    return [
        Sub("round-trip", check, "hypothesis", strategy=lambda: _case(False), examples=40 if q else 2000),
        Sub("one-field-variants", check, "hypothesis", strategy=lambda: _case(True), examples=60 if q else 3000),
        Sub("collections", check_collection, "hypothesis", strategy=_collection, examples=10 if q else 500),
        Sub("load-histories", check_history, "hypothesis", strategy=_history, examples=25 if q else 1000),
        Sub("cross-process", _replay_cross, "custom", run=_cross_process(60 if q else 300, ["0", "1", "4242"] if q else ["0", "1", "4242", "random", "99"])),
    ]
