"""C03 - every item of a generated dataset is a correctly solved maze."""

from __future__ import annotations

import numpy as np
from hypothesis import strategies as st

from mzverif import gen as G
from mzverif import lib as L
from mzverif import model as M
from mzverif import core
from mzverif.core import Discard, Sub, Violation, require

ID = "C03"
LEVEL = "exploration"
TECHNIQUE = "Hypothesis over dataset configurations (generator x kwargs x grid size x n_mazes up to 101 x seed x endpoint options x serial/from_config/parallel with pool size) + grids beyond 128 cells per side + cyclic mazes with endpoints more than 127 steps apart; oracle = per-item validity predicate from the independent BFS model plus endpoint-option conformance; endpoint-draws: exact model of which start/end cells the options leave (a refusal is accepted only when nothing is left); configuration objects that reached their content through in-place edits after being looked at"
RULE = (
    "case = (configuration spec incl. endpoint options, generation mode serial | parallel with k processes | from_config). Every maze "
    "of the result is checked. Non-trivial = n_mazes >= 2, grid_n >= 3 and (parallel generation or at least one endpoint option); "
    "distinct by canonical case digest. Configurations whose generation raises the documented ValueError are discarded (counted)."
)
ASSUMPTIONS = [
    "worker schedules are sampled (pool sizes 1..4 quick / 1..8 thorough), not enumerated: the pool belongs to multiprocessing; the oracle is schedule-independent (validity, not equality with the serial result)",
    "endpoints must be distinct when endpoints_not_equal is set or when no allowed_*/deadend_* option is given; otherwise equal endpoints are allowed",
    "documented ValueError = 'no valid start or end positions found', numpy's 'larger sample than population' (component < 2 cells) or numpy's 'high <= 0' (no end candidate left once the start is excluded)",
]

_DOC_ERR = ("no valid start or end positions", "larger sample than population", "Cannot take a larger sample", "high <= 0")


def check(case: dict):
    from maze_dataset import MazeDataset
    from maze_dataset.maze.lattice_maze import SolvedMaze

    spec, mode = case["spec"], case["mode"]
    n = spec["grid_n"]
    cfg = L.make_cfg(spec)
    try:
        if mode == "serial":
            ds = MazeDataset.generate(cfg)
        elif mode == "from_config":
            ds = MazeDataset.from_config(cfg, load_local=False, save_local=False, do_download=False)
        else:
            ds = MazeDataset.generate(cfg, gen_parallel=True, pool_kwargs={"processes": case["procs"]})
    except ValueError as e:
        ep0 = spec.get("endpoint", {})
        # a default-argument tree generator yields a spanning tree (>= 2 leaves on every grid of >= 2 cells): without allowed-cell lists
        # every endpoint option can be met, so a refusal there is not the documented "cannot satisfy" outcome
        always_satisfiable = (spec["ctor"] in ("gen_dfs", "gen_wilson", "gen_prim") and not spec.get("kwargs") and n >= 2
                              and ep0.get("allowed_start") is None and ep0.get("allowed_end") is None)
        if (any(s in str(e) for s in _DOC_ERR) or core._raised_while_drawing_endpoints(e)) and not always_satisfiable:
            raise Discard() from e
        raise Violation(f"C03:{mode}:raises:ValueError", f"{str(e)[:200]}; spec={spec}") from e
    except Exception as e:  # noqa: BLE001
        raise Violation(f"C03:{mode}:raises:{type(e).__name__}", f"{str(e)[:300]}; spec={spec}") from e
    sig = f"C03:{mode}"
    require(len(ds) == spec["n_mazes"], f"{sig}:length", f"{len(ds)} mazes for n_mazes={spec['n_mazes']}")
    ep = spec.get("endpoint", {})
    a_start = {tuple(x) for x in ep["allowed_start"]} if ep.get("allowed_start") is not None else None
    a_end = {tuple(x) for x in ep["allowed_end"]} if ep.get("allowed_end") is not None else None
    special = a_start is not None or a_end is not None or ep.get("deadend_start") or ep.get("deadend_end")
    must_differ = bool(ep.get("endpoints_not_equal")) or not special
    for i, m in enumerate(ds.mazes):
        require(isinstance(m, SolvedMaze), f"{sig}:item-type", f"item {i} is {type(m).__name__}")
        cl = np.asarray(m.connection_list)
        require(cl.shape == (2, n, n), f"{sig}:grid-size", f"item {i}: shape {cl.shape} for grid_n={n}")
        g = M.g_from_cl(cl)
        a = M.adj(g)
        sol = np.asarray(m.solution)
        require(sol.ndim == 2 and sol.shape[1] == 2 and sol.shape[0] >= 1, f"{sig}:solution-shape", f"item {i}: {sol.shape}")
        path = L.as_cells(sol)
        s, e = tuple(int(x) for x in m.start_pos), tuple(int(x) for x in m.end_pos)
        prob = M.path_problems(g, a, path, start=s, end=e, need_shortest=True, need_simple=True)
        require(prob is None, f"{sig}:bad-solution", f"item {i}: {prob}; path={path} bits={g['cl']} spec={spec}")
        if a_start is not None:
            require(s in a_start, f"{sig}:start-not-allowed", f"item {i}: start {s} not in {sorted(a_start)}")
        if a_end is not None:
            require(e in a_end, f"{sig}:end-not-allowed", f"item {i}: end {e} not in {sorted(a_end)}")
        if ep.get("deadend_start"):
            require(len(a[s]) == 1, f"{sig}:start-not-deadend", f"item {i}: start {s} has degree {len(a[s])}; bits={g['cl']}")
        if ep.get("deadend_end"):
            require(len(a[e]) == 1, f"{sig}:end-not-deadend", f"item {i}: end {e} has degree {len(a[e])}; bits={g['cl']}")
        if must_differ:
            require(s != e, f"{sig}:endpoints-equal", f"item {i}: start == end == {s} with endpoint options {ep}")
    labels = [mode, spec["ctor"]] + [f"ep:{k}" for k, v in ep.items() if v not in (None, False)]
    if mode == "parallel":
        labels.append(f"procs:{case['procs']}")
    nt = spec["n_mazes"] >= 2 and n >= 3 and (mode == "parallel" or bool(special) or bool(ep.get("endpoints_not_equal")))
    return {"nt": nt, "labels": labels}


@st.composite
def _endpoint(draw, n):
    ep: dict = {}
    cells = [[i, j] for i in range(n) for j in range(n)]
    size = st.sampled_from(["one", "few", "many", "all"])

    def lst():
        k = draw(size)
        if k == "one":
            return [draw(st.sampled_from(cells))]
        if k == "few":
            return draw(st.lists(st.sampled_from(cells), min_size=2, max_size=3, unique_by=tuple))
        if k == "all":
            return list(cells)
        return draw(st.lists(st.sampled_from(cells), min_size=max(1, len(cells) // 2), max_size=len(cells), unique_by=tuple))

    if draw(st.booleans()):
        ep["allowed_start"] = lst()
    if draw(st.booleans()):
        ep["allowed_end"] = lst()
        if "allowed_start" in ep and draw(st.booleans()):
            # overlapping candidates: the interesting case for endpoints_not_equal
            ep["allowed_end"] = [ep["allowed_start"][0]] + [x for x in ep["allowed_end"][:1] if x != ep["allowed_start"][0]]
    if draw(st.integers(0, 3)) == 0:
        ep["deadend_start"] = draw(st.booleans())
    if draw(st.integers(0, 3)) == 0:
        ep["deadend_end"] = draw(st.booleans())
    if draw(st.booleans()):
        ep["endpoints_not_equal"] = draw(st.booleans())
    if draw(st.integers(0, 5)) == 0:
        ep["except_when_invalid"] = True  # the remaining option of the endpoint-drawing step, spelled out with its default value
    return ep


@st.composite
def _case(draw, n_hi, mazes_hi, modes, max_procs):
    spec = draw(G.dataset_spec(n_lo=2, n_hi=n_hi, mazes_lo=0, mazes_hi=mazes_hi, with_endpoint=False, with_filters=False))
    if draw(st.booleans()):
        spec["endpoint"] = draw(_endpoint(spec["grid_n"]))
    mode = draw(st.sampled_from(modes))
    if draw(st.integers(0, 3)) == 0:
        # occasionally many mazes on a small grid: batching / chunking of the work list only shows with counts well above the pool size
        spec["n_mazes"] = draw(st.sampled_from([13, 16, 17, 23, 31, 32, 33, 37, 50, 64, 65, 100, 101] if spec["grid_n"] <= 4 else [13, 16, 17, 23, 33]))
        if "endpoint" in spec:
            spec["endpoint"] = {k: v for k, v in spec["endpoint"].items() if k in ("deadend_start", "deadend_end", "endpoints_not_equal")}
        if mode == "parallel":
            # a worker that raises while many tasks are still queued can dead-lock multiprocessing.Pool.terminate() (CPython, not the
            # library): long parallel runs therefore use configurations that can always be satisfied (default tree generators)
            spec["ctor"], spec["kwargs"] = draw(st.sampled_from(["gen_dfs", "gen_wilson", "gen_prim"])), {}
    case = {"spec": spec, "mode": mode}
    if mode == "parallel":
        case["procs"] = draw(st.integers(1, max_procs))
    return case


def check_draws(case: dict):
    """the endpoint-drawing step on a maze whose graph the harness knows: the model decides which start / end cells the options leave;
    a draw must come from exactly those sets, and the draw may only be refused when the model says nothing is left"""
    g, opts = case["g"], case["opts"]
    r, c = g["r"], g["c"]
    a = M.adj(g)
    comp = M.component(a, tuple(case["root"]))
    full = len(comp) == r * c
    meta = {"func_name": "hand", "grid_shape": np.array([r, c]), "start_coord": np.array(case["root"]), "fully_connected": full,
            "visited_cells": {tuple(u) for u in comp}}
    if full and case.get("drop_meta"):
        meta = None
    m = L.lattice(g, meta=meta)
    region = set(comp) if not full else {(i, j) for i in range(r) for j in range(c)}
    S = region if opts.get("allowed_start") is None else ({tuple(x) for x in opts["allowed_start"]} & region)
    E = region if opts.get("allowed_end") is None else ({tuple(x) for x in opts["allowed_end"]} & region)
    if opts.get("deadend_start"):
        S = {u for u in S if len(a[u]) == 1}
    if opts.get("deadend_end"):
        E = {u for u in E if len(a[u]) == 1}
    special = opts.get("allowed_start") is not None or opts.get("allowed_end") is not None or opts.get("deadend_start") or opts.get("deadend_end")
    ne = bool(opts.get("endpoints_not_equal"))
    if not special:
        must_raise = len(region) < 2
        may_raise = must_raise
    else:
        must_raise = not S or not E
        may_raise = must_raise or (ne and len(E) == 1 and E <= S)
    kw = {k: ([tuple(x) for x in v] if isinstance(v, list) else v) for k, v in opts.items() if v is not None}
    np.random.seed(case["np_seed"] % (2**32))
    n_ok = 0
    for k in range(case.get("draws", 6)):
        try:
            p = m.generate_random_path(**kw)
        except ValueError as ex:
            require(may_raise, "C03:draw:refused-although-satisfiable", f"{r}x{c} options {opts}: the model leaves {len(S)} start and {len(E)} end cells, but the draw raised {str(ex)[:80]!r}; bits={g['cl']} root={case['root']}")
            continue
        except Exception as ex:  # noqa: BLE001
            raise Violation(f"C03:draw:raises:{type(ex).__name__}", f"{opts}: {str(ex)[:200]}") from ex
        require(not must_raise, "C03:draw:accepted-although-unsatisfiable", f"options {opts}: model leaves {len(S)} start / {len(E)} end cells but a path was returned")
        path = L.as_cells(p)
        s_, e_ = path[0], path[-1]
        if special:
            require(s_ in S, "C03:draw:start-not-allowed", f"start {s_} not among the {len(S)} cells the options leave ({opts}); bits={g['cl']}")
            require(e_ in E, "C03:draw:end-not-allowed", f"end {e_} not among the {len(E)} cells the options leave ({opts}); bits={g['cl']}")
        else:
            require(s_ in region and e_ in region, "C03:draw:outside-component", f"{s_}->{e_} outside the recorded component")
        if ne or not special:
            require(s_ != e_, "C03:draw:endpoints-equal", f"start == end == {s_} with options {opts}")
        prob = M.path_problems(g, a, path, start=s_, end=e_, need_shortest=True, need_simple=True)
        require(prob is None, "C03:draw:bad-solution", f"{prob}; path={path} bits={g['cl']}")
        n_ok += 1
    labels = ["draws", "special" if special else "plain"] + [f"ep:{k}" for k, v in opts.items() if v not in (None, False)] + (["refusal-expected"] if must_raise else [])
    return {"nt": n_ok >= 1 and bool(special) and r * c >= 6, "labels": labels}


@st.composite
def _draws(draw, hi):
    g = draw(G.shaped_graphs(2, hi, False))
    r, c = g["r"], g["c"]
    cells = [[i, j] for i in range(r) for j in range(c)]
    a = M.adj(g)
    # root of the recorded component: prefer a cell with neighbours
    roots = [u for u in cells if a[tuple(u)]] or cells
    root = draw(st.sampled_from(roots))
    comp = sorted(M.component(a, tuple(root)))
    leaves = [list(u) for u in comp if len(a[u]) == 1]
    opts: dict = {}
    pick = st.sampled_from(["none", "none", "comp-few", "leaves", "any-few", "all", "outside"])

    def lst(kind):
        if kind == "comp-few":
            return draw(st.lists(st.sampled_from([list(u) for u in comp]), min_size=1, max_size=3, unique_by=tuple))
        if kind == "leaves" and leaves:
            return draw(st.lists(st.sampled_from(leaves), min_size=1, max_size=3, unique_by=tuple))
        if kind == "any-few":
            return draw(st.lists(st.sampled_from(cells), min_size=1, max_size=4, unique_by=tuple))
        if kind == "all":
            return list(cells)
        if kind == "outside":
            out = [u for u in cells if tuple(u) not in set(comp)]
            return draw(st.lists(st.sampled_from(out), min_size=1, max_size=2, unique_by=tuple)) if out else None
        return None

    opts["allowed_start"] = lst(draw(pick))
    opts["allowed_end"] = lst(draw(pick))
    if opts["allowed_start"] and draw(st.integers(0, 3)) == 0:
        opts["allowed_end"] = [opts["allowed_start"][0]]
    opts["deadend_start"] = draw(st.sampled_from([False, False, True]))
    opts["deadend_end"] = draw(st.sampled_from([False, False, True]))
    opts["endpoints_not_equal"] = draw(st.booleans())
    return {"g": g, "root": root, "opts": opts, "np_seed": draw(st.integers(0, 2**32 - 1)), "draws": 6, "drop_meta": draw(st.booleans())}


def _large_cases(count):
    """grids beyond 128 cells per side (coordinates no longer fit the int8 width some arrays are stored with); endpoints are pinned so
    that generation never has to be discarded, specs are derived from VERIF_SEED"""
    def cases(shard, nshards):
        for k in range(count):
            if k % nshards != shard:
                continue
            sd = core.derive_seed(core.SEED, "C03-large", k)
            n = [130, 129, 140, 133, 150, 128][k % 6]
            far = [[n - 10, n - 10], [127, 127], [n - 1, n - 1], [120, 120], [n - 2, 5], [100, 127]][k % 6]
            yield {"mode": "serial", "spec": {"name": "big", "grid_n": n, "n_mazes": 1, "ctor": ["gen_dfs", "gen_dfs", "gen_dfs_percolation"][k % 3], "kwargs": {} if k % 3 != 2 else {"p": 0.05},
                                              "seed": sd % (2**31), "endpoint": {"allowed_start": [[0, 0]], "allowed_end": [far]}}}

    return cases


def _far_cyclic_cases(count):
    """mazes with cycles whose endpoints lie more than 127 steps apart (every distance estimate along the way passes the width of a
    signed byte); below 128 cells per side, so everything else about the dataset is ordinary"""
    def cases(shard, nshards):
        for k in range(count):
            if k % nshards != shard:
                continue
            sd = core.derive_seed(core.SEED, "C03-far", k)
            n = [86, 70, 100, 80, 66, 92][k % 6]
            a, b = [([0, 0], [n - 1, n - 1]), ([0, n - 1], [n - 1, 0]), ([0, 2], [n - 1, n - 1]), ([n - 1, n - 1], [0, 0])][(k // 6) % 4]
            yield {"mode": "serial", "spec": {"name": "far", "grid_n": n, "n_mazes": 2, "ctor": "gen_dfs_percolation", "kwargs": {"p": [0.03, 0.02, 0.05, 0.1][k % 4]},
                                              "seed": sd % (2**31), "endpoint": {"allowed_start": [a], "allowed_end": [b]}}}

    return cases


def subs(tier: str):
    q = tier == "quick"
    return [
        Sub("serial", check, "hypothesis", strategy=lambda: _case(8 if q else 15, 12, ["serial", "serial", "from_config"], 1), examples=150 if q else 3000),
        # parallel generation must be started from a top-level process (the library's worker initializer rejects nested process
        # identities) and multiprocessing.Pool teardown can dead-lock after a worker error: the sub-check therefore runs in fresh
        # interpreters, a chunk of cases at a time, each chunk under a wall limit (a hung chunk is killed and counted, not an alarm)
        Sub("endpoint-draws", check_draws, "hypothesis", strategy=lambda: _draws(7 if q else 12), examples=150 if q else 3000),
        Sub("grids-beyond-128", check, "exhaustive", cases=_large_cases(6 if q else 24)),
        Sub("far-endpoints-with-cycles", check, "exhaustive", cases=_far_cyclic_cases(32 if q else 192)),
        Sub("parallel-inner", check, "hypothesis", strategy=lambda: _case(6 if q else 10, 12, ["parallel"], 4 if q else 8), examples=50, shards=1, hidden=True),
        Sub("parallel", check, "custom", run=core.hypothesis_in_fresh_interpreters("C03", tier, "parallel-inner", "parallel", 50 if q else 500, 25 if q else 100, 240 if q else 900)),
    ]
