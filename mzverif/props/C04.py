"""C04 - serial dataset generation is a pure function of the configuration."""

from __future__ import annotations

import json
import random

import numpy as np
from hypothesis import strategies as st

from mzverif import core
from mzverif import gen as G
from mzverif import lib as L
from mzverif.core import Discard, Failure, Stats, Sub, call, require
from mzverif.props import C08

ID = "C04"
LEVEL = "exploration"
TECHNIQUE = "Hypothesis histories of perturbations (RNG draws / reseeds, other configs and datasets incl. near copies of the target, failing generations, direct generator calls, tokenization, filtering / serializing other datasets) between two observations + differential across fresh interpreters with different hash seeds and visiting orders + serial generation inside worker processes the caller created (fork / spawn pools, a thread); oracle = first observation, generate + list-model filters for from_config, config untouched (its fields read directly, not through the library serializer); reference from the plainly constructed configuration vs. objects edited in place after being serialized / named / hashed; verbose calls"
RULE = (
    "case = (target configuration spec, history of perturbing operations, observation route generate|from_config, fresh or reused "
    "config object). Perturbations: python random draws/re-seed, numpy global draws/re-seed, torch seed/draw, constructing other "
    "configs, generating / from_config of other configs, tokenizing with shuffling tokenizers (legacy and modular), generating the "
    "target itself. Non-trivial = observation preceded by >= 1 perturbing operation; distinct by canonical case digest."
)
ASSUMPTIONS = [
    "the reference is the first generation in the same process; agreement between processes is decided by the cross-process sub-check",
    "configurations for which generation raises the documented ValueError (no valid endpoints / component < 2 cells) are discarded (counted)",
    "from_config results are compared with the C08 filter model applied to the raw generated list; percentile ties accept both cutoffs",
]


def _diff_fields(a: dict, b: dict) -> str:
    return "; ".join(f"{k}: {a.get(k)} -> {b.get(k)}" for k in sorted(set(a) | set(b)) if a.get(k) != b.get(k))[:400]


def _structs(ds):
    return [C08._struct(m) for m in ds.mazes]


def _quiet(fn):
    """the same call with what it prints (progress bars, log lines of verbose=True) sent nowhere"""
    import contextlib
    import os

    def inner(*a, **kw):
        with open(os.devnull, "w") as null, contextlib.redirect_stdout(null), contextlib.redirect_stderr(null):
            return fn(*a, **kw)

    return inner


def _generate(spec, cfg=None):
    from maze_dataset import MazeDataset

    cfg = cfg or L.make_cfg(spec)
    return MazeDataset.generate(cfg), cfg


def apply_history(history):
    import torch
    from maze_dataset import MazeDataset

    for op in history:
        k = op["op"]
        try:
            if k == "py_random":
                for _ in range(op["n"]):
                    random.random()
            elif k == "py_seed":
                random.seed(op["s"])
            elif k == "np_random":
                np.random.rand(op["n"])
            elif k == "np_seed":
                np.random.seed(op["s"])
            elif k == "torch_seed":
                torch.manual_seed(op["s"])
            elif k == "torch_rand":
                torch.rand(3)
            elif k == "make_cfg":
                L.make_cfg(op["spec"])
            elif k == "generate":
                MazeDataset.generate(L.make_cfg(op["spec"]))
            elif k == "from_config":
                MazeDataset.from_config(L.make_cfg(op["spec"]), load_local=False, save_local=False, do_download=False)
            elif k == "generator_call":
                L.run_generator(op["call"])
            elif k == "random_path":
                m = L.run_generator(op["call"])
                m.generate_random_path(**op.get("ep", {}))
            elif k == "filter_other":
                ds = MazeDataset.generate(L.make_cfg(op["spec"]))
                ds.filter_by.remove_duplicates_fast().filter_by.collect_generation_meta().serialize()
            elif k == "tokenize":
                from maze_dataset.tokenization import MazeTokenizer, MazeTokenizerModular, TokenizationMode

                ds = MazeDataset.generate(L.make_cfg({"name": "tok", "grid_n": 3, "n_mazes": 2, "ctor": "gen_dfs", "seed": op.get("s", 5)}))
                if op.get("legacy"):
                    ds.as_tokens(MazeTokenizer(tokenization_mode=TokenizationMode.AOTP_UT_uniform, max_grid_size=5))
                else:
                    ds.as_tokens(MazeTokenizerModular())
        except Exception:  # noqa: BLE001 - perturbations may legitimately fail (e.g. unsatisfiable endpoint options)
            pass


def check(case: dict):
    from maze_dataset import MazeDataset

    spec = case["target"]
    # the reference comes from a configuration object constructed in one go; the observation below may use an object that reached the
    # same content through in-place edits after it had been looked at (spec["built"], see lib.make_cfg) - the dataset is a function of
    # the configuration, not of how the object came to hold it
    cfg = L.make_cfg({k: v for k, v in spec.items() if k != "built"})
    fields0 = L.cfg_fields(cfg)
    vb = {"verbose": True} if case.get("verbose") else {}  # an option of the call that is not part of the configuration
    try:
        ref_ds = MazeDataset.generate(cfg)
    except ValueError as e:
        core.discard_if_unsatisfiable(e, "C04:generate")
    require(L.cfg_fields(cfg) == fields0, "C04:generate:config-modified", f"generate changed the configuration object passed in: {_diff_fields(fields0, L.cfg_fields(cfg))}")
    ref = _structs(ref_ds)
    require(len(ref) == spec["n_mazes"], "C04:generate:length", f"{len(ref)} mazes for n_mazes={spec['n_mazes']}")
    apply_history(case["history"])
    cfg2 = L.make_cfg(spec) if case.get("fresh_cfg", True) else cfg
    fields_before = L.cfg_fields(cfg2)
    before = json.dumps(cfg2.serialize(), default=str, sort_keys=True)
    require(L.cfg_fields(cfg2) == fields_before, "C04:serialize:config-modified", f"serializing a configuration changed it: {_diff_fields(fields_before, L.cfg_fields(cfg2))}")
    filters_obj = cfg2.applied_filters
    filters_copy = [dict(f) for f in cfg2.applied_filters]
    route = case.get("route", "generate")
    labels = [route, spec["ctor"]] + sorted({op["op"] for op in case["history"]}) + (["config-edited-in-place"] if spec.get("built") and cfg2 is not cfg else []) + (["verbose"] if vb else [])
    if route == "generate":
        obs = call("C04:generate", _quiet(MazeDataset.generate), cfg2, **vb)
        got = _structs(obs)
        require(got == ref, "C04:generate:not-reproducible",
                f"second generation differs from the first in {sum(1 for a, b in zip(got, ref) if a != b)} of {len(ref)} mazes after history {[o['op'] for o in case['history']]}; spec={spec}")
    else:
        # expected = the recorded filters applied in order to the raw generated list (every step checked against the C08 model);
        # configurations whose filter list leaves a filter outside its domain on this data are discarded
        import inspect

        from maze_dataset.dataset.maze_dataset import MazeDatasetFilters

        items = [{"g": {"r": spec["grid_n"], "c": spec["grid_n"], "cl": cl}, "sol": [list(q) for q in sol]} for cl, sol in ref]
        ops = []
        for f in spec.get("filters", []):
            names = [p for p in inspect.signature(getattr(MazeDatasetFilters, f["name"])).parameters][1:]
            op = {"f": f["name"], "params": {**dict(zip(names, f.get("args", []))), **f.get("kwargs", {})}}
            if f.get("args"):
                op["positional"] = True
            ops.append(op)
        names_ = [f["name"] for f in spec.get("filters", [])]
        applied, _, _, hand, final_items = C08.run_sequence(ref_ds, items, ops, sig="C04:by-hand")
        if applied != len(ops):
            raise Discard()
        obs = call("C04:from_config", _quiet(MazeDataset.from_config), cfg2, load_local=False, save_local=False, do_download=False, **vb)
        got = _structs(obs)
        want = [C08._item_struct(it) for it in final_items]
        require(got == want, "C04:from_config:not-generate-plus-filters",
                f"from_config returned {len(got)} mazes; generate + filters {names_} gives {len(want)}; history {[o['op'] for o in case['history']]}; spec={spec}")
        labels.append("filters" if names_ else "no-filters")
    after = json.dumps(cfg2.serialize(), default=str, sort_keys=True)
    require(after == before, f"C04:{route}:config-modified", "the configuration object passed in changed")
    require(L.cfg_fields(cfg2) == fields_before, f"C04:{route}:config-modified", f"the configuration object passed in changed: {_diff_fields(fields_before, L.cfg_fields(cfg2))}")
    require([dict(f) for f in cfg2.applied_filters] == filters_copy and cfg2.n_mazes == spec["n_mazes"],
            f"C04:{route}:config-filters-modified", f"applied_filters / n_mazes of the passed config changed: {cfg2.applied_filters}, {cfg2.n_mazes}")
    return {"nt": len(case["history"]) >= 1, "labels": labels}


# ---- strategies ------------------------------------------------------------------------


def _target(filters: bool):
    return G.dataset_spec(n_lo=2, n_hi=6, mazes_lo=1, mazes_hi=8, with_endpoint=True, with_filters=filters, satisfiable_bias=True)


@st.composite
def _history(draw, maxlen):
    ops = []
    for _ in range(draw(st.integers(0, maxlen))):
        k = draw(st.sampled_from(["py_random", "py_seed", "np_random", "np_seed", "torch_seed", "torch_rand", "make_cfg", "generate", "generate", "from_config", "tokenize", "same",
                                  "generator_call", "random_path", "filter_other"]))
        op = {"op": k}
        if k in ("py_random", "np_random"):
            op["n"] = draw(st.integers(1, 7))
        elif k in ("py_seed", "np_seed", "torch_seed"):
            op["s"] = draw(st.integers(0, 2**31 - 1))
        elif k in ("make_cfg", "generate", "from_config", "filter_other"):
            # other datasets come with their own endpoint options / recorded filters (and may fail to generate: state left by a failure counts too)
            op["spec"] = draw(G.dataset_spec(n_lo=2, n_hi=4, mazes_lo=1, mazes_hi=4, with_endpoint=k != "filter_other", with_filters=k == "from_config", satisfiable_bias=draw(st.booleans())))
        elif k in ("generator_call", "random_path"):
            op["call"] = draw(G.generator_call(lo=2, hi=5, square=True))
            if k == "random_path" and draw(st.booleans()):
                op["ep"] = {"deadend_start": draw(st.booleans()), "deadend_end": draw(st.booleans()), "endpoints_not_equal": draw(st.booleans())}
        elif k == "tokenize":
            op["legacy"] = draw(st.booleans())
            op["s"] = draw(st.integers(0, 100))
        ops.append(op)
    return ops


@st.composite
def _case(draw, maxlen):
    route = draw(st.sampled_from(["generate", "generate", "from_config"]))
    target = draw(_target(route == "from_config"))
    hist = draw(_history(maxlen))
    for op in hist:
        if op["op"] == "same":
            op["op"] = "generate"
            op["spec"] = target
            if draw(st.booleans()):
                # a near copy of the target: same seed and generator, another start cell / endpoint option / maze count
                v = L.json_copy(target)
                v.pop("filters", None)
                how = draw(st.sampled_from(["start_coord", "endpoint", "n_mazes", "name"]))
                if how == "start_coord" and v["ctor"] != "gen_wilson":
                    v["kwargs"] = {**v.get("kwargs", {}), "start_coord": [draw(st.integers(0, v["grid_n"] - 1)), draw(st.integers(0, v["grid_n"] - 1))]}
                elif how == "endpoint":
                    v["endpoint"] = {"deadend_start": draw(st.booleans()), "endpoints_not_equal": draw(st.booleans())}
                elif how == "n_mazes":
                    v["n_mazes"] = v["n_mazes"] + draw(st.integers(1, 3))
                else:
                    v["name"] = v["name"] + "2"
                op["spec"] = v
    case = {"target": target, "history": hist, "route": route, "fresh_cfg": draw(st.booleans())}
    if draw(st.integers(0, 3)) == 0:
        case["verbose"] = True
    return case


_SUBPROC = r"""
import sys, json, warnings, hashlib
warnings.filterwarnings("ignore")
sys.path.insert(0, {verif!r})
from mzverif import lib as L
from mzverif.props import C08
from maze_dataset import MazeDataset
req = json.load(sys.stdin)
out = {{}}
for i in req["order"]:
    s = req["specs"][i]
    try:
        ds = MazeDataset.generate(L.make_cfg(s))
        out[str(i)] = hashlib.sha256(json.dumps([C08._struct(m) for m in ds.mazes]).encode()).hexdigest()
    except ValueError:
        out[str(i)] = "ValueError"
print(json.dumps(out))
"""


def _cross_process(n_specs: int, hashseeds):
    def run(seed_val: int):
        import hashlib

        from maze_dataset import MazeDataset

        stats = Stats()
        specs = core.collect_examples(_target(False), n_specs, seed_val)
        # plus larger grids with constrained generators: many visited cells whose bookkeeping (sets, dicts) is where a per-process hash seed could leak into the result
        for k in range(max(6, n_specs // 6)):
            sd = core.derive_seed(seed_val, "C04-big", k)
            n = [10, 12, 9, 14][k % 4]
            ctor = ["gen_dfs", "gen_prim", "gen_dfs_percolation", "gen_percolation"][k % 4]
            kw = ({"accessible_cells": [0.7, 0.5, 40, 0.9][(k // 4) % 4]} if ctor in ("gen_dfs", "gen_prim") else {"p": [0.3, 0.5, 0.6][(k // 4) % 3]})
            if ctor == "gen_dfs_percolation" and k % 8 >= 4:
                kw["accessible_cells"] = 50
            specs.append({"name": "big", "grid_n": n, "n_mazes": 6, "ctor": ctor, "kwargs": kw, "seed": int(sd % (2**31)),
                          **({"endpoint": {"deadend_start": True}} if k % 3 == 0 else {})})
        idx = list(range(len(specs)))
        outs = {}
        for j, hs in enumerate(hashseeds):
            order = idx[::-1] if j % 2 else idx[j:] + idx[:j]
            txt = core.run_python(_SUBPROC.format(verif=core.VERIF_DIR), {"PYTHONHASHSEED": hs}, stdin=json.dumps({"specs": specs, "order": order}))
            outs[hs] = json.loads(txt.strip().splitlines()[-1])
        fails = []
        for i, s in enumerate(specs):
            try:
                mine = hashlib.sha256(json.dumps(_structs(MazeDataset.generate(L.make_cfg(s)))).encode()).hexdigest()
            except ValueError:
                mine = "ValueError"
            vals = {hs: outs[hs][str(i)] for hs in hashseeds}
            vals["parent"] = mine
            case = {"spec": s, "hashseeds": list(hashseeds)}
            if len(set(vals.values())) == 1:
                if mine != "ValueError":
                    stats.record(case, {"nt": True, "labels": ["cross-process", s["ctor"]]})
                else:
                    stats.discarded += 1
            elif not fails:
                fails.append(Failure("cross-process", "C04:generate:differs-across-processes", f"{vals}; spec={s}", case))
        stats.extra["processes"] = len(hashseeds) + 1
        return stats, fails

    return run


def _replay_cross(case):
    """replay entry for the cross-process sub-check: two fresh interpreters + this process"""
    import hashlib

    from maze_dataset import MazeDataset

    s = case["spec"]
    vals = set()
    for hs in case.get("hashseeds", ["0", "1"]):
        txt = core.run_python(_SUBPROC.format(verif=core.VERIF_DIR), {"PYTHONHASHSEED": hs}, stdin=json.dumps({"specs": [s], "order": [0]}))
        vals.add(json.loads(txt.strip().splitlines()[-1])["0"])
    try:
        vals.add(hashlib.sha256(json.dumps(_structs(MazeDataset.generate(L.make_cfg(s)))).encode()).hexdigest())
    except ValueError:
        vals.add("ValueError")
    require(len(vals) == 1, "C04:generate:differs-across-processes", f"{vals}")
    return {"nt": True, "labels": []}


_WORKERS = r"""
import sys, json, warnings, multiprocessing, threading
warnings.filterwarnings("ignore")
sys.path.insert(0, {verif!r})
from mzverif import lib as L
if __name__ == "__main__":
    req = json.load(sys.stdin)
    specs = req["specs"]
    out = {{"main": [L.dataset_digest(s) for s in specs]}}
    for method in req["methods"]:
        ctx = multiprocessing.get_context(method)
        with ctx.Pool(req["workers"]) as pool:
            out["pool-" + method] = pool.map(L.dataset_digest, specs, chunksize=1)
    box = []
    t = threading.Thread(target=lambda: box.append([L.dataset_digest(s) for s in specs]))
    t.start(); t.join()
    out["thread"] = box[0]
    print(json.dumps(out))
"""


def _inside_workers(n_specs: int, methods, workers: int):
    """'in the same process or in another one': the other process may be one the *caller* created - a worker of the caller's own
    multiprocessing pool (fork or spawn start method; e.g. a data-loader worker) or a thread - in which the dataset is generated
    serially. Same configuration, same mazes."""
    def run(seed_val: int):
        stats = Stats()
        specs = core.collect_examples(_target(False), n_specs, core.derive_seed(seed_val, "workers"))
        txt = core.run_python(_WORKERS.format(verif=core.VERIF_DIR), {}, stdin=json.dumps({"specs": specs, "methods": list(methods), "workers": workers}), timeout=1500)
        out = json.loads(txt.strip().splitlines()[-1])
        fails = []
        for i, s in enumerate(specs):
            vals = {k: v[i] for k, v in out.items()}
            case = {"spec": s, "methods": list(methods), "workers": workers}
            if len(set(vals.values())) == 1:
                if vals["main"] != "ValueError":
                    stats.record(case, {"nt": True, "labels": ["inside-workers", s["ctor"]]})
                else:
                    stats.discarded += 1
            elif not fails:
                where = sorted(k for k, v in vals.items() if v != vals["main"])
                fails.append(Failure("inside-worker-processes", "C04:generate:differs-inside-worker-process",
                                     f"serial generation in {where} gives other mazes than in the main process; spec={s}", case))
        stats.extra["process-kinds"] = sorted(out)
        return stats, fails

    return run


def _replay_workers(case):
    txt = core.run_python(_WORKERS.format(verif=core.VERIF_DIR), {}, stdin=json.dumps({"specs": [case["spec"]], "methods": case.get("methods", ["fork"]), "workers": case.get("workers", 3)}))
    out = json.loads(txt.strip().splitlines()[-1])
    vals = {k: v[0] for k, v in out.items()}
    require(len(set(vals.values())) == 1, "C04:generate:differs-inside-worker-process",
            f"serial generation in {sorted(k for k, v in vals.items() if v != vals['main'])} gives other mazes than in the main process")
    return {"nt": True, "labels": []}


def subs(tier: str):
    q = tier == "quick"
    return [
        Sub("histories", check, "hypothesis", strategy=lambda: _case(6 if q else 12), examples=40 if q else 3000),
        Sub("inside-worker-processes", _replay_workers, "custom", run=_inside_workers(12 if q else 60, ["fork", "spawn"], 3)),
        Sub("cross-process", _replay_cross, "custom", run=_cross_process(40 if q else 200, ["0", "1", "4242"] if q else ["0", "1", "4242", "random", "77"])),
    ]
