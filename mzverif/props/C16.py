"""C16 - a dataset collection is exactly the concatenation of its member datasets."""

from __future__ import annotations

import itertools

import numpy as np
from hypothesis import strategies as st

from mzverif import core
from mzverif import lib as L
from mzverif import model as M
from mzverif.core import Sub, call, require

ID = "C16"
LEVEL = "exploration"
TECHNIQUE = "exhaustive over all member-length vectors in {0,1,2}^k (k<=4) + Hypothesis vectors (1..7 members, lengths 0..4, forced zeros, shared member names, stale declared counts) + member-edit histories (observations interleaved with edits of members and with storing the live collection) + offsets handed out overwritten, sibling collections, totals beyond 32768; oracle = explicit concatenation, compared by object identity for every index; histories with tokenization under a limit before the flattened list is read, member-level config updates"
RULE = (
    "case = (vector of member lengths, member grid sizes, construction route: hand-built members or MazeDatasetCollection.generate). "
    "Every index 0 <= i < len is queried (as int and as numpy integer). Non-trivial = at least one empty member and at least two "
    "non-empty members; distinct by canonical case digest."
)
ASSUMPTIONS = ["only valid indices 0 <= i < len are queried (the statement quantifies over valid indices)"]


def _maze(n: int, k: int, meta: dict | None = None):
    """a distinct solved maze on an n x n grid (k selects which lattice edge is the single connection)"""
    E = M.lattice_edges(n, n)
    bits = [0] * (2 * n * n)
    if E:
        u, v = E[k % len(E)]
        bits[M.edge_bit(n, n, u, v)] = 1
        sol = [list(u), list(v)]
    else:
        sol = [[0, 0]]
    return L.solved(M.g_make(n, n, bits), sol, meta=meta)


def check(case: dict):
    if case.get("other"):
        # two collections with different member layouts alive in one process, used one after the other and again
        _check_one(case["other"])
        r = _check_one(case)
        _check_one(case["other"])
        return r
    r = _check_one(case)
    if sum(case["lens"]) <= 40 and case.get("route", "hand") == "hand":
        _check_one(case)  # a second collection with the same member layout, built after the first one was used
    return r


def _check_one(case: dict):
    from maze_dataset import MazeDataset, MazeDatasetCollection, MazeDatasetCollectionConfig, MazeDatasetConfig

    lens, grids, route = case["lens"], case["grids"], case.get("route", "hand")
    names = case.get("names") or list(range(len(lens)))  # members may share a config name (names are free-form labels)
    declared = case.get("declared") or lens  # n_mazes written in a member's config may differ from the mazes it holds (as after a filter / split)
    if route == "generate":
        declared = lens
        if not case.get("same_cfg"):
            names = list(range(len(lens)))
    seeds = [100 + (0 if case.get("same_cfg") else j) for j in range(len(lens))]
    if case.get("same_cfg"):
        # member configurations that are equal except for the maze count (the count is excluded from config equality)
        names, grids = [0] * len(lens), [grids[0]] * len(lens)
    cfgs = [MazeDatasetConfig(name=f"m{names[j]}", grid_n=grids[j], n_mazes=declared[j], seed=seeds[j]) for j in range(len(lens))]
    ccfg = MazeDatasetCollectionConfig(name="col", maze_dataset_configs=cfgs)
    if route == "generate":
        col = call("C16:generate", MazeDatasetCollection.generate, ccfg)
        members = col.maze_datasets
    else:
        members = [MazeDataset(cfg=cfgs[j], mazes=[_maze(grids[j], 7 * j + k) for k in range(lens[j])]) for j in range(len(lens))]
        col = call("C16:construct", MazeDatasetCollection, ccfg, members)
    concat = [m for ds in members for m in ds.mazes]
    total = sum(lens)
    require(len(concat) == total, "C16:member-lengths", f"members hold {len(concat)} mazes for requested {lens}")
    n = call("C16:len", len, col)
    require(n == total, "C16:len", f"len(collection)={n}, members {lens}")
    for i in range(total):
        for idx in (i, np.int64(i)):
            got = call("C16:getitem", col.__getitem__, idx)
            require(got is concat[i], "C16:getitem-wrong-maze", f"lens={lens}: item {i} is not the maze at position {i} of the concatenation"
                    f" (it is at position {next((k for k, m in enumerate(concat) if m is got), None)})")
    mz = call("C16:mazes", lambda: col.mazes)
    require(len(mz) == total and all(a is b for a, b in zip(mz, concat)), "C16:flattened-list", f"lens={lens}: flattened list differs from the concatenation")
    dl = call("C16:dataset_lengths", lambda: list(col.dataset_lengths))
    require(dl == list(lens), "C16:dataset_lengths", f"{dl} vs {lens}")
    if list(declared) != list(lens):
        # the reported maze count is brought up to date by update_self_config (what every filter / from_config does)
        call("C16:update_self_config", col.update_self_config)
    nm = call("C16:cfg.n_mazes", lambda: col.cfg.n_mazes)
    require(nm == total == len(mz) == sum(dl), "C16:counts-disagree", f"cfg.n_mazes={nm} len(mazes)={len(mz)} sum(lengths)={sum(dl)} len={total}")
    if list(declared) != list(lens):
        n2 = call("C16:len", len, col)
        require(n2 == total, "C16:len", f"after update_self_config len(collection)={n2}, members {lens}")
    # the caller goes on working with the offset / length arrays it was handed (turning end offsets into start offsets, say): the
    # collection's own answers - and those of any other collection with the same member lengths - do not depend on those arrays
    for attr in ("dataset_cum_lengths", "dataset_lengths"):
        handed = call(f"C16:{attr}", lambda: getattr(col, attr))
        core.scribble(handed if isinstance(handed, np.ndarray) else None)
    for i in range(total):
        got = call("C16:getitem", col.__getitem__, i)
        require(got is concat[i], "C16:getitem-wrong-maze", f"lens={lens}: after the caller overwrote the offsets it had been handed, item {i} is not the maze at position {i}"
                f" (it is at position {next((k for k, m in enumerate(concat) if m is got), None)})")
    nonempty = sum(1 for x in lens if x > 0)
    labels = [route]
    if len(set(names)) < len(names):
        labels.append("shared-member-name")
    if list(declared) != list(lens):
        labels.append("stale-declared-count")
    if lens and lens[0] == 0:
        labels.append("zero-first")
    if lens and lens[-1] == 0:
        labels.append("zero-last")
    if any(a == 0 and b == 0 for a, b in zip(lens, lens[1:])):
        labels.append("repeated-zeros")
    return {"nt": (0 in lens) and nonempty >= 2, "labels": labels}


def _observe(col, lens_now, sig):
    """len / item identity / per-member lengths against the members the collection holds right now"""
    members = col.maze_datasets
    concat = [m for ds in members for m in ds.mazes]
    n = call(f"{sig}:len", len, col)
    require(n == len(concat), f"{sig}:len", f"len(collection)={n}, members hold {[len(d.mazes) for d in members]}")
    for i in range(len(concat)):
        got = call(f"{sig}:getitem", col.__getitem__, i)
        require(got is concat[i], f"{sig}:getitem-wrong-maze", f"member lengths {[len(d.mazes) for d in members]}: item {i} is not the maze at position {i} of "
                f"the concatenation (it is at position {next((k for k, m in enumerate(concat) if m is got), None)})")
    dl = call(f"{sig}:dataset_lengths", lambda: list(col.dataset_lengths))
    require(dl == [len(d.mazes) for d in members], f"{sig}:dataset_lengths", f"{dl} vs {[len(d.mazes) for d in members]}")
    # the reported maze count: whenever every member configuration the collection lists states the number of mazes that member holds
    # right now (read from the objects directly), the collection's own reported count agrees with its length
    listed = getattr(col.cfg, "maze_dataset_configs", None)
    if listed is not None and len(listed) == len(members) and all(vars(c).get("n_mazes") == len(d.mazes) for c, d in zip(listed, members)):
        nm = call(f"{sig}:cfg.n_mazes", lambda: col.cfg.n_mazes)
        require(nm == len(concat), f"{sig}:counts-disagree", f"cfg.n_mazes={nm} although every listed member configuration is up to date: members hold {dl}")


def check_history(case: dict):
    """the same statement after the members of a live collection changed length: queries are interleaved with member edits
    (in-place change of a member's maze list, replacement of a member by a filtered copy, update_self_config)"""
    from maze_dataset import MazeDataset, MazeDatasetCollection, MazeDatasetCollectionConfig, MazeDatasetConfig

    lens, grids, ops = case["lens"], case["grids"], case["ops"]
    cfgs = [MazeDatasetConfig(name=f"m{j}", grid_n=grids[j], n_mazes=lens[j], seed=100 + j) for j in range(len(lens))]
    ccfg = MazeDatasetCollectionConfig(name="col", maze_dataset_configs=cfgs)
    with_meta = any(o[0] == "serialize" for o in ops)  # (as generated mazes carry it: what the compact storage format gathers)
    mk_meta = lambda j, k: {"func_name": "by-hand", "grid_shape": np.array([grids[j], grids[j]]), "fully_connected": False, "k": int(k % 3)} if with_meta else None  # noqa: E731
    members = [MazeDataset(cfg=cfgs[j], mazes=[_maze(grids[j], 7 * j + k, mk_meta(j, k)) for k in range(lens[j])]) for j in range(len(lens))]
    col = call("C16:construct", MazeDatasetCollection, ccfg, members)
    edited = False
    n_obs_after_edit = 0
    fresh = 1000
    for op in ops:
        kind = op[0]
        if kind == "observe":
            _observe(col, None, "C16:history")
            if not edited:
                mz = call("C16:mazes", lambda: col.mazes)
                concat = [m for ds in col.maze_datasets for m in ds.mazes]
                require(len(mz) == len(concat) and all(a is b for a, b in zip(mz, concat)), "C16:flattened-list", "flattened list differs from the concatenation")
            else:
                n_obs_after_edit += 1
        elif kind == "shrink":
            ds = col.maze_datasets[op[1] % len(col.maze_datasets)]
            ds.mazes = ds.mazes[: min(op[2], len(ds.mazes))]
            edited = True
        elif kind == "grow":
            j = op[1] % len(col.maze_datasets)
            ds = col.maze_datasets[j]
            fresh += 1
            ds.mazes = ds.mazes + [_maze(grids[j], fresh)]
            edited = True
        elif kind == "replace":
            j = op[1] % len(col.maze_datasets)
            col.maze_datasets[j] = call("C16:history:truncate_count", col.maze_datasets[j].filter_by.truncate_count, op[2])
            edited = True
        elif kind == "update":
            call("C16:history:update_self_config", col.update_self_config)
        elif kind == "member_update":
            # only the member's own configuration is brought up to date (what a filter applied to that member does)
            ds = col.maze_datasets[op[1] % len(col.maze_datasets)]
            call("C16:history:member-update_self_config", ds.update_self_config)
        elif kind == "tokens":
            # the collection is tokenized, possibly only its first few mazes; what comes out is C07's business - here only: the
            # collection still agrees with its members afterwards
            from maze_dataset.tokenization import MazeTokenizerModular

            try:
                col.as_tokens(MazeTokenizerModular(), op[1], bool(op[2]))
            except Exception:  # noqa: BLE001
                pass
        elif kind == "serialize":
            # the collection is stored (members in the compact format, which gathers their per-maze metadata first); whether storing works is
            # C05's business - here only: the collection still agrees with its members afterwards
            import maze_dataset.dataset.maze_dataset as md

            md.set_serialize_minimal_threshold(op[1])
            try:
                col.serialize()
            except Exception:  # noqa: BLE001
                pass
            finally:
                md.set_serialize_minimal_threshold(100)
        else:
            raise ValueError(kind)
    _observe(col, None, "C16:history")
    if not edited:
        mz = call("C16:mazes", lambda: col.mazes)
        concat = [m for ds in col.maze_datasets for m in ds.mazes]
        require(len(mz) == len(concat) and all(a is b for a, b in zip(mz, concat)), "C16:flattened-list", "flattened list differs from the concatenation")
    final = [len(d.mazes) for d in col.maze_datasets]
    return {"nt": edited and n_obs_after_edit >= 1 and sum(1 for x in final if x > 0) >= 2,
            "labels": sorted({o[0] for o in ops}) + (["edited-then-observed"] if n_obs_after_edit else [])}


@st.composite
def _histories(draw, maxm, maxlen):
    n = draw(st.integers(2, maxm))
    lens = [draw(st.sampled_from([0] + list(range(1, maxlen + 1)))) for _ in range(n)]
    grids = [2 + ((j + draw(st.integers(0, 1))) % 3) for j in range(n)]
    op = st.one_of(
        st.just(["observe"]),
        st.tuples(st.just("shrink"), st.integers(0, n - 1), st.integers(0, maxlen)).map(list),
        st.tuples(st.just("grow"), st.integers(0, n - 1)).map(list),
        st.tuples(st.just("replace"), st.integers(0, n - 1), st.integers(0, maxlen)).map(list),
        st.just(["update"]),
        st.tuples(st.just("member_update"), st.integers(0, n - 1)).map(list),
        st.tuples(st.just("tokens"), st.sampled_from([None, 0, 1, 2, 3, 5]), st.booleans()).map(list),
        st.tuples(st.just("serialize"), st.sampled_from([0, 1, 2, 100])).map(list),
    )
    ops = draw(st.lists(op, min_size=1, max_size=8))
    # (the flattened list is a cached snapshot: a history may or may not look at the collection before it does anything else)
    return {"lens": lens, "grids": grids, "ops": ([["observe"]] if draw(st.booleans()) else []) + ops}


def check_huge(case: dict):
    """totals beyond 2^15 / 2^16 mazes built from medium-sized members (running totals must not be held in a narrower type than the
    total needs); items are probed at member boundaries and at a stride"""
    from maze_dataset import MazeDataset, MazeDatasetCollection, MazeDatasetCollectionConfig, MazeDatasetConfig

    lens = case["lens"]
    base = [_maze(2, k) for k in range(4)]
    cfgs = [MazeDatasetConfig(name=f"h{j}", grid_n=2, n_mazes=lens[j], seed=j) for j in range(len(lens))]
    members = []
    for j, ln in enumerate(lens):
        # distinct objects per member would cost memory for nothing: identity of (member, local index) is checked through the member itself
        members.append(MazeDataset(cfg=cfgs[j], mazes=[base[(j + k) % 4] for k in range(ln)]))
    col = call("C16:construct", MazeDatasetCollection, MazeDatasetCollectionConfig(name="huge", maze_dataset_configs=cfgs), members)
    total = sum(lens)
    require(call("C16:len", len, col) == total, "C16:len", f"len={len(col)} total={total}")
    bounds, acc = [], 0
    for ln in lens:
        bounds += [acc - 1, acc, acc + 1, acc + ln // 2]
        acc += ln
    probes = sorted({i for i in bounds + list(range(0, total, max(1, total // 200))) + [total - 1, 32767, 32768, 65535, 65536] if 0 <= i < total})
    for i in probes:
        j, off, acc = 0, i, 0
        while off >= lens[j]:
            off -= lens[j]
            j += 1
        got = call("C16:getitem", col.__getitem__, i)
        require(got is members[j].mazes[off], "C16:getitem-wrong-maze", f"member lengths {lens}: item {i} is not maze {off} of member {j}")
    dl = list(col.dataset_lengths)
    require(dl == list(lens) and col.cfg.n_mazes == total, "C16:counts-disagree", f"dataset_lengths={dl[:6]} cfg.n_mazes={col.cfg.n_mazes} total={total}")
    return {"nt": True, "labels": ["huge", f"total>={total // 10000 * 10000}"]}


def _huge_cases(shard, nshards):
    for k, lens in enumerate([[12000, 0, 12000, 9000, 3000], [30000, 2768, 1], [20000, 20000, 20000, 5537], [1, 32766, 1, 1], [40000], [0, 65535, 2]]):
        if k % nshards == shard:
            yield {"lens": lens}


def _exhaustive(shard, nshards):
    k = 0
    for n in range(1, 5):
        for lens in itertools.product([0, 1, 2], repeat=n):
            k += 1
            if k % nshards == shard:
                yield {"lens": list(lens), "grids": [2 + (j % 3) for j in range(n)], "route": "hand"}


@st.composite
def _random(draw, maxm, maxlen):
    n = draw(st.integers(1, maxm))
    lens = [draw(st.sampled_from([0, 0] + list(range(1, maxlen + 1)))) for _ in range(n)]
    # force zeros at interesting places
    for pos in draw(st.lists(st.sampled_from(["first", "last", "mid", "pair"]), max_size=3)):
        if pos == "first":
            lens[0] = 0
        elif pos == "last":
            lens[-1] = 0
        elif pos == "mid" and n >= 3:
            lens[n // 2] = 0
        elif pos == "pair" and n >= 2:
            j = draw(st.integers(0, n - 2))
            lens[j] = lens[j + 1] = 0
    grids = [draw(st.integers(2, 5)) for _ in range(n)]
    case = {"lens": lens, "grids": grids, "route": draw(st.sampled_from(["hand", "hand", "generate"]))}
    if draw(st.integers(0, 3)) == 0:
        # many members (more than any small-collection fast path would cover)
        n = draw(st.sampled_from([17, 24, 33, 40]))
        case["lens"] = [draw(st.sampled_from([0, 1, 1, 2, 3])) for _ in range(n)]
        case["grids"] = [2 + (j % 3) for j in range(n)]
        case["route"] = "hand"
        return case
    if draw(st.integers(0, 3)) == 0:
        m2 = draw(st.integers(1, 5))
        case["other"] = {"lens": [draw(st.integers(0, 3)) for _ in range(m2)], "grids": [2 + ((j + 1) % 3) for j in range(m2)], "route": "hand"}
    if draw(st.integers(0, 3)) == 0:
        case["same_cfg"] = True
    if case["route"] == "hand":
        if draw(st.booleans()):
            case["names"] = [draw(st.integers(0, max(0, n // 2))) for _ in range(n)]
        if draw(st.booleans()):
            case["declared"] = [draw(st.sampled_from([x, x, x + 1, x + 3, max(0, x - 1), 0])) for x in lens]
    return case


def subs(tier: str):
    q = tier == "quick"
    return [
        Sub("exhaustive-012", check, "exhaustive", cases=_exhaustive, exhaustive_flag=True),
        Sub("random", check, "hypothesis", strategy=lambda: _random(7 if q else 12, 4 if q else 8), examples=60 if q else 2000),
        Sub("totals-beyond-32768", check_huge, "exhaustive", cases=_huge_cases, exhaustive_flag=False),
        Sub("member-edit-histories", check_history, "hypothesis", strategy=lambda: _histories(5 if q else 8, 3 if q else 5), examples=80 if q else 3000),
    ]
