#!/venv/bin/python
"""evaluate one seeded change: apply to a scratch worktree of /repo, confirm demo fails there / passes on the clean tree,
optionally run the repository test suite, then run our check(s) against the worktree.

usage: seeded_eval.py <src_dir> <PROP> [--suite] [--tier quick|thorough] [--props C02,C03] [--keep]
prints one JSON object."""
import argparse, json, os, shutil, subprocess, sys, tempfile, time

ap = argparse.ArgumentParser()
ap.add_argument("src"); ap.add_argument("prop")
ap.add_argument("--suite", action="store_true"); ap.add_argument("--tier", default="quick")
ap.add_argument("--props", default=None); ap.add_argument("--seed", default="1")
a = ap.parse_args()
src = os.path.abspath(a.src)
wt = tempfile.mkdtemp(prefix=f"mzeval-{a.prop}-", dir="/tmp"); os.rmdir(wt)
res = {"src": src, "prop": a.prop}
def run(cmd, env=None, cwd=None, timeout=3600):
    e = dict(os.environ); e.update(env or {})
    p = subprocess.run(cmd, shell=True, capture_output=True, text=True, env=e, cwd=cwd, timeout=timeout)
    return p.returncode, (p.stdout + p.stderr)
try:
    rc, out = run(f"git -C /repo worktree add -q --detach {wt} HEAD")
    assert rc == 0, out
    rc, out = run(f"git apply {src}/patch.diff", cwd=wt)
    if rc != 0:
        # the change was written against an earlier commit of /repo (before a later fix: commit touched neighbouring lines): merge it
        rc, out = run(f"git apply --3way {src}/patch.diff", cwd=wt)
        res["applied_by_3way_merge"] = rc == 0
    res["applies"] = rc == 0
    if rc != 0:
        res["apply_err"] = out[-500:]
    else:
        if not os.environ.get("SEEDED_SKIP_DEMO"):
            rc, out = run(f"/venv/bin/python -W ignore {src}/demo.py", env={"PYTHONPATH": wt}, cwd=wt, timeout=1800)
            res["demo_mutant_rc"] = rc; res["demo_mutant_tail"] = out[-300:]
            rc, out = run(f"/venv/bin/python -W ignore {src}/demo.py", env={"PYTHONPATH": "/repo"}, cwd="/repo", timeout=1800)
            res["demo_clean_rc"] = rc
        if a.suite:
            t = time.time()
            rc, out = run("/venv/bin/python -m pytest -q -p no:cacheprovider --timeout=900 -x tests 2>&1 | tail -3", env={"PYTHONPATH": wt}, cwd=wt, timeout=3600)
            res["suite_tail"] = out.strip().splitlines()[-1] if out.strip() else ""; res["suite_s"] = round(time.time() - t)
        for prop in (a.props.split(",") if a.props else [a.prop]):
            t = time.time()
            rc, out = run(f"./check {prop} --tier {a.tier}", env={"VERIF_REPO": wt, "VERIF_SEED": a.seed}, cwd=os.environ.get("VERIF_EVAL_DIR", "/verif"), timeout=6 * 3600)
            sigs = sorted({l.split("=", 1)[1].strip() for l in out.splitlines() if l.strip().startswith("signature=")})
            res[f"check_{prop}"] = {"rc": rc, "s": round(time.time() - t), "signatures": sigs[:8], "tail": out[-400:] if rc not in (0, 1) else ""}
finally:
    subprocess.run(f"git -C /repo worktree remove --force {wt}", shell=True, capture_output=True)
    shutil.rmtree(wt, ignore_errors=True)
print(json.dumps(res))
