"""Reference models. Nothing in here calls the library under test.

A graph case is ``{"r": int, "c": int, "cl": "<bitstring of length 2*r*c>"}`` with bit order
``[d][i][j]`` (d=0: (i,j)-(i+1,j) "down"; d=1: (i,j)-(i,j+1) "right").
"""

from __future__ import annotations

import hashlib
import itertools
from collections import deque

import numpy as np


# ----------------------------------------------------------------------------------------------
# encoding
# ----------------------------------------------------------------------------------------------


def g_make(r: int, c: int, bits) -> dict:
    return {"r": int(r), "c": int(c), "cl": "".join("1" if b else "0" for b in bits)}


def g_from_cl(cl: np.ndarray) -> dict:
    assert cl.ndim == 3 and cl.shape[0] == 2
    return g_make(cl.shape[1], cl.shape[2], cl.reshape(-1).tolist())


def g_bits(g: dict) -> list[int]:
    return [1 if ch == "1" else 0 for ch in g["cl"]]


def g_cl(g: dict) -> np.ndarray:
    """fresh numpy connection structure for handing to the library"""
    r, c = g["r"], g["c"]
    arr = np.array(g_bits(g), dtype=np.bool_).reshape(2, r, c)
    return arr


def bit_index(r: int, c: int, d: int, i: int, j: int) -> int:
    return d * r * c + i * c + j


def lattice_edges(r: int, c: int) -> list[tuple[tuple[int, int], tuple[int, int]]]:
    """all lattice edges as (lesser cell, greater cell)"""
    out = []
    for i in range(r):
        for j in range(c):
            if i + 1 < r:
                out.append(((i, j), (i + 1, j)))
            if j + 1 < c:
                out.append(((i, j), (i, j + 1)))
    return out


def edge_bit(r: int, c: int, a, b) -> int:
    """bit index of the lattice edge {a,b}"""
    (i, j), (k, l) = sorted([tuple(a), tuple(b)])
    if k == i + 1 and l == j:
        return bit_index(r, c, 0, i, j)
    if k == i and l == j + 1:
        return bit_index(r, c, 1, i, j)
    raise ValueError("not a lattice edge")


def clear_boundary(r: int, c: int, bits: list[int]) -> list[int]:
    bits = list(bits)
    for j in range(c):
        bits[bit_index(r, c, 0, r - 1, j)] = 0
    for i in range(r):
        bits[bit_index(r, c, 1, i, c - 1)] = 0
    return bits


def boundary_bits_set(g: dict) -> list[tuple[int, int, int]]:
    r, c = g["r"], g["c"]
    bits = g_bits(g)
    out = []
    for j in range(c):
        if bits[bit_index(r, c, 0, r - 1, j)]:
            out.append((0, r - 1, j))
    for i in range(r):
        if bits[bit_index(r, c, 1, i, c - 1)]:
            out.append((1, i, c - 1))
    return out


# ----------------------------------------------------------------------------------------------
# graph model
# ----------------------------------------------------------------------------------------------


def edges_of(g: dict) -> list[tuple[tuple[int, int], tuple[int, int]]]:
    """connections present, as (lesser, greater) cell pairs; boundary bits (which leave the grid) ignored"""
    r, c = g["r"], g["c"]
    bits = g_bits(g)
    out = []
    for i in range(r):
        for j in range(c):
            if i + 1 < r and bits[bit_index(r, c, 0, i, j)]:
                out.append(((i, j), (i + 1, j)))
            if j + 1 < c and bits[bit_index(r, c, 1, i, j)]:
                out.append(((i, j), (i, j + 1)))
    return out


def adj(g: dict) -> dict[tuple[int, int], list[tuple[int, int]]]:
    r, c = g["r"], g["c"]
    a: dict = {(i, j): [] for i in range(r) for j in range(c)}
    for u, v in edges_of(g):
        a[u].append(v)
        a[v].append(u)
    return a


def cells(g: dict) -> list[tuple[int, int]]:
    return [(i, j) for i in range(g["r"]) for j in range(g["c"])]


def bfs(a: dict, start) -> dict[tuple[int, int], int]:
    start = tuple(start)
    dist = {start: 0}
    dq = deque([start])
    while dq:
        u = dq.popleft()
        for v in a[u]:
            if v not in dist:
                dist[v] = dist[u] + 1
                dq.append(v)
    return dist


def component(a: dict, start) -> set:
    return set(bfs(a, start).keys())


def components(a: dict) -> list[set]:
    seen: set = set()
    out = []
    for u in a:
        if u not in seen:
            comp = component(a, u)
            seen |= comp
            out.append(comp)
    return out


def n_edges(g: dict) -> int:
    return len(edges_of(g))


def is_spanning_tree(g: dict) -> bool:
    a = adj(g)
    n = g["r"] * g["c"]
    return len(component(a, (0, 0))) == n and n_edges(g) == n - 1


def comp_has_cycle(g: dict, comp: set) -> bool:
    e = sum(1 for u, v in edges_of(g) if u in comp)
    return e > len(comp) - 1


def count_shortest_paths(a: dict, s, e) -> int:
    s, e = tuple(s), tuple(e)
    dist = bfs(a, s)
    if e not in dist:
        return 0
    cnt = {s: 1}
    order = sorted(dist, key=lambda u: dist[u])
    for u in order:
        for v in a[u]:
            if dist.get(v) == dist[u] + 1:
                cnt[v] = cnt.get(v, 0) + cnt[u]
    return cnt.get(e, 0)


def all_shortest_paths(a: dict, s, e, cap: int = 8) -> list[list[tuple[int, int]]]:
    s, e = tuple(s), tuple(e)
    dist_e = bfs(a, e)
    if s not in dist_e:
        return []
    out: list = []

    def rec(path):
        if len(out) >= cap:
            return
        u = path[-1]
        if u == e:
            out.append(list(path))
            return
        for v in sorted(a[u]):
            if dist_e.get(v) == dist_e[u] - 1:
                path.append(v)
                rec(path)
                path.pop()

    rec([s])
    return out


def shortest_path(a: dict, s, e) -> list[tuple[int, int]] | None:
    """the lexicographically first shortest path (iterative: paths may be thousands of cells long)"""
    s, e = tuple(s), tuple(e)
    dist_e = bfs(a, e)
    if s not in dist_e:
        return None
    path = [s]
    while path[-1] != e:
        u = path[-1]
        path.append(next(v for v in sorted(a[u]) if dist_e.get(v) == dist_e[u] - 1))
    return path


def path_problems(g: dict, a: dict, path, start=None, end=None, need_shortest=True, need_simple=True) -> str | None:
    """returns None when `path` is a valid (simple, shortest) route, else a description"""
    r, c = g["r"], g["c"]
    p = [tuple(int(x) for x in q) for q in path]
    if len(p) == 0:
        return "empty path"
    for q in p:
        if len(q) != 2 or not (0 <= q[0] < r and 0 <= q[1] < c):
            return f"cell {q} outside {r}x{c} grid"
    if start is not None and p[0] != tuple(start):
        return f"starts at {p[0]}, expected {tuple(start)}"
    if end is not None and p[-1] != tuple(end):
        return f"ends at {p[-1]}, expected {tuple(end)}"
    for u, v in zip(p[:-1], p[1:]):
        if v not in a[u]:
            return f"step {u}->{v} is not a connection"
    if need_simple and len(set(p)) != len(p):
        return "visits a cell twice"
    if need_shortest:
        d = bfs(a, p[0]).get(p[-1])
        if d is None or len(p) - 1 != d:
            return f"length {len(p) - 1} but the minimum is {d}"
    return None


# ----------------------------------------------------------------------------------------------
# spanning-tree enumeration (for C19)
# ----------------------------------------------------------------------------------------------


def enumerate_spanning_trees(r: int, c: int) -> list[str]:
    """all spanning trees of the r x c lattice as canonical bit strings"""
    E = lattice_edges(r, c)
    n = r * c
    out = []
    for subset in itertools.combinations(range(len(E)), n - 1):
        parent = list(range(n))

        def find(x):
            while parent[x] != x:
                parent[x] = parent[parent[x]]
                x = parent[x]
            return x

        ok = True
        for k in subset:
            (i, j), (p, q) = E[k]
            a_, b_ = find(i * c + j), find(p * c + q)
            if a_ == b_:
                ok = False
                break
            parent[a_] = b_
        if ok:
            bits = [0] * (2 * r * c)
            for k in subset:
                u, v = E[k]
                bits[edge_bit(r, c, u, v)] = 1
            out.append("".join(map(str, bits)))
    return out


# ----------------------------------------------------------------------------------------------
# fingerprints
# ----------------------------------------------------------------------------------------------


def edge_inclusion_probs(r: int, c: int):
    """exact probabilities, under the uniform law over spanning trees of the r x c grid, that one lattice edge / two lattice
    edges belong to the tree (Kirchhoff / transfer-current theorem: P(e in T) = Y(e,e), P(e,f in T) = Y(e,e)Y(f,f) - Y(e,f)^2 with
    Y(e,f) = G(a,c) - G(a,d) - G(b,c) + G(b,d), G the pseudo-inverse of the graph Laplacian). Returns (edges, p1, p2)."""
    E = lattice_edges(r, c)
    n = r * c
    Lp = np.zeros((n, n))
    for (i, j), (p_, q) in E:
        a, b = i * c + j, p_ * c + q
        Lp[a, a] += 1
        Lp[b, b] += 1
        Lp[a, b] -= 1
        Lp[b, a] -= 1
    Gm = np.linalg.pinv(Lp)
    idx = [((i * c + j), (p_ * c + q)) for (i, j), (p_, q) in E]
    m = len(E)
    Y = np.zeros((m, m))
    for x, (a, b) in enumerate(idx):
        for y, (cc, d) in enumerate(idx):
            Y[x, y] = Gm[a, cc] - Gm[a, d] - Gm[b, cc] + Gm[b, d]
    p1 = [float(Y[x, x]) for x in range(m)]
    p2 = {(x, y): float(Y[x, x] * Y[y, y] - Y[x, y] * Y[y, x]) for x in range(m) for y in range(x + 1, m)}
    return E, p1, p2


def maze_fingerprint(m) -> str:
    """byte-level fingerprint of a library maze object (reads attributes only)"""
    h = hashlib.sha256()
    cl = np.asarray(m.connection_list)
    h.update(type(m).__name__.encode())
    h.update(repr(tuple(cl.shape)).encode())
    h.update(np.ascontiguousarray(cl.astype(np.bool_)).tobytes())
    sol = getattr(m, "solution", None)
    if sol is not None:
        s = np.asarray(sol).astype(np.int64)
        h.update(repr(tuple(s.shape)).encode())
        h.update(np.ascontiguousarray(s).tobytes())
    for nm in ("start_pos", "end_pos"):
        v = getattr(m, nm, None)
        if v is not None:
            h.update(np.ascontiguousarray(np.asarray(v).astype(np.int64)).tobytes())
    return h.hexdigest()


def dataset_fingerprint(mazes) -> str:
    h = hashlib.sha256()
    for m in mazes:
        h.update(maze_fingerprint(m).encode())
    return h.hexdigest()


# ----------------------------------------------------------------------------------------------
# renderer (C10 / C17 / C20)
# ----------------------------------------------------------------------------------------------

WALL = (0, 0, 0)
OPEN = (255, 255, 255)
START = (0, 255, 0)
END = (255, 0, 0)
PATH = (0, 0, 255)
CHARS = {WALL: "#", OPEN: " ", START: "S", END: "E", PATH: "X"}


def sync_palette() -> None:
    """the five colours / characters are the library's published constants (no property fixes the palette itself); what is drawn where
    is decided by this model alone. Falls back to the defaults above if the constants are missing or not pairwise distinct."""
    global WALL, OPEN, START, END, PATH, CHARS
    try:
        from maze_dataset.maze.lattice_maze import AsciiChars, PixelColors

        cols = [tuple(int(x) for x in getattr(PixelColors, k)) for k in ("WALL", "OPEN", "START", "END", "PATH")]
        chs = [str(getattr(AsciiChars, k)) for k in ("WALL", "OPEN", "START", "END", "PATH")]
        if len(set(cols)) == 5 and len(set(chs)) == 5 and all(len(c) == 3 for c in cols) and all(len(ch) == 1 for ch in chs):
            WALL, OPEN, START, END, PATH = cols
            CHARS = dict(zip(cols, chs))
    except Exception:  # noqa: BLE001
        pass


def render(g: dict, start=None, end=None, solution=None, show_endpoints=True, show_solution=True) -> list[list[tuple]]:
    """(2r+1) x (2c+1) picture from the definition, as nested lists of rgb tuples"""
    r, c = g["r"], g["c"]
    H, W = 2 * r + 1, 2 * c + 1
    img = [[WALL for _ in range(W)] for _ in range(H)]
    for i in range(r):
        for j in range(c):
            img[2 * i + 1][2 * j + 1] = OPEN
    for (i, j), (k, l) in edges_of(g):
        img[i + k + 1][j + l + 1] = OPEN
    if solution is not None and show_solution:
        sol = [tuple(q) for q in solution]
        for i, j in sol:
            img[2 * i + 1][2 * j + 1] = PATH
        for (i, j), (k, l) in zip(sol[:-1], sol[1:]):
            img[i + k + 1][j + l + 1] = PATH
    if show_endpoints and start is not None and end is not None:
        img[2 * start[0] + 1][2 * start[1] + 1] = START
        img[2 * end[0] + 1][2 * end[1] + 1] = END
    return img


def render_ascii(img: list[list[tuple]]) -> str:
    return "\n".join("".join(CHARS[px] for px in row) for row in img)


def img_to_lists(arr: np.ndarray) -> list[list[tuple]]:
    return [[tuple(int(x) for x in px) for px in row] for row in arr.tolist()]


def first_pixel_diff(a: list[list[tuple]], b: list[list[tuple]]) -> str | None:
    if len(a) != len(b) or any(len(x) != len(y) for x, y in zip(a, b)):
        return f"size {len(a)}x{len(a[0]) if a else 0} vs {len(b)}x{len(b[0]) if b else 0}"
    for i, (ra, rb) in enumerate(zip(a, b)):
        for j, (pa, pb) in enumerate(zip(ra, rb)):
            if tuple(pa) != tuple(pb):
                return f"pixel ({i},{j}): got {tuple(pa)} expected {tuple(pb)}"
    return None


# ----------------------------------------------------------------------------------------------
# token-stream decoder (C06 / C07) - configured only from a parameter dict, never from library objects
# ----------------------------------------------------------------------------------------------
#
# params = {
#   "seq": "AOTP" | "AOP",
#   "coord": {"kind": "UT"} | {"kind": "CTT", "pre": b, "intra": b, "post": b},
#   "adj": {"cls": "coord" | "cardinal", "post": b, "shuffle_d0": b, "ordinal": 0|1|2,
#           "subset": "all" | "conn" | "walls", "permuter": "sorted" | "random" | "both"},
#   "target": {"post": b},                                   (AOTP only)
#   "path": {"step_size": "singles" | "forks", "steps": [...of "coord","cardinal","relative","distance"], "pre": b, "intra": b, "post": b},
# }

import re as _re

DELIMS = ["<ADJLIST_START>", "<ADJLIST_END>", "<ORIGIN_START>", "<ORIGIN_END>", "<TARGET_START>", "<TARGET_END>", "<PATH_START>", "<PATH_END>"]
COMPASS = [(-1, 0), (0, 1), (1, 0), (0, -1)]  # N, E, S, W clockwise
CARDINAL_WORD = {(-1, 0): "NORTH", (1, 0): "SOUTH", (0, -1): "WEST", (0, 1): "EAST"}
WORD_CARDINAL = {v: k for k, v in CARDINAL_WORD.items()}


class DecodeError(Exception):
    pass


def coord_tokens(cp: dict, cell) -> list[str]:
    r, c = int(cell[0]), int(cell[1])
    if cp["kind"] == "UT":
        return [f"({r},{c})"]
    out = []
    if cp.get("pre", True):
        out.append("(")
    out.append(str(r))
    if cp.get("intra", True):
        out.append(",")
    out.append(str(c))
    if cp.get("post", True):
        out.append(")")
    return out


def parse_coord(cp: dict, toks: list[str], i: int):
    """returns ((r,c), next index) or raises DecodeError"""
    try:
        if cp["kind"] == "UT":
            m = _re.fullmatch(r"\((\d+),(\d+)\)", toks[i])
            if not m:
                raise DecodeError(f"expected a coordinate token at {i}, got {toks[i]!r}")
            return (int(m.group(1)), int(m.group(2))), i + 1
        if cp.get("pre", True):
            if toks[i] != "(":
                raise DecodeError(f"expected '(' at {i}, got {toks[i]!r}")
            i += 1
        if not _re.fullmatch(r"\d+", toks[i]):
            raise DecodeError(f"expected a row index at {i}, got {toks[i]!r}")
        r = int(toks[i])
        i += 1
        if cp.get("intra", True):
            if toks[i] != ",":
                raise DecodeError(f"expected ',' at {i}, got {toks[i]!r}")
            i += 1
        if not _re.fullmatch(r"\d+", toks[i]):
            raise DecodeError(f"expected a column index at {i}, got {toks[i]!r}")
        c = int(toks[i])
        i += 1
        if cp.get("post", True):
            if toks[i] != ")":
                raise DecodeError(f"expected ')' at {i}, got {toks[i]!r}")
            i += 1
        return (r, c), i
    except IndexError:
        raise DecodeError("token stream ends inside a coordinate")


def split_regions(tokens: list[str], kind: str) -> dict:
    """check the delimiter structure for the maze kind and cut the regions"""
    want = {"lattice": DELIMS[:2], "targeted": DELIMS[:6], "solved": DELIMS[:8]}[kind]
    for d in DELIMS:
        n = tokens.count(d)
        if d in want and n != 1:
            raise DecodeError(f"delimiter {d} occurs {n} times, expected exactly once")
        if d not in want and n != 0:
            raise DecodeError(f"delimiter {d} present but a {kind} maze has no such region")
    pos = [tokens.index(d) for d in want]
    if pos != sorted(pos):
        raise DecodeError(f"delimiters out of order: {[tokens[p] for p in sorted(pos)]}")
    if pos[0] != 0 or pos[-1] != len(tokens) - 1:
        raise DecodeError("tokens outside the outermost delimiters")
    for a, b in zip(pos[1::2], pos[2::2]):
        if b != a + 1:
            raise DecodeError(f"tokens between {tokens[a]} and {tokens[b]}")
    out = {"adj": tokens[pos[0] + 1 : pos[1]]}
    if len(want) >= 6:
        out["origin"] = tokens[pos[2] + 1 : pos[3]]
        out["target"] = tokens[pos[4] + 1 : pos[5]]
    if len(want) == 8:
        out["path"] = tokens[pos[6] + 1 : pos[7]]
    return out


def parse_adjacency(params: dict, toks: list[str]) -> list[tuple]:
    """-> list of (lead, trail, is_connection)"""
    ap, cp = params["adj"], params["coord"]
    order = ["lead", "trail"]
    order.insert(ap["ordinal"], "conn")
    i, out = 0, []
    while i < len(toks):
        ent: dict = {}
        for part in order:
            if part == "conn":
                if i >= len(toks) or toks[i] not in ("<-->", "<XX>"):
                    raise DecodeError(f"expected a connector token at {i}, got {toks[i] if i < len(toks) else None!r}")
                ent["conn"] = toks[i] == "<-->"
                i += 1
            elif part == "lead" or ap["cls"] == "coord":
                ent[part], i = parse_coord(cp, toks, i)
            else:
                if i >= len(toks) or toks[i] not in WORD_CARDINAL:
                    raise DecodeError(f"expected a cardinal word at {i}, got {toks[i] if i < len(toks) else None!r}")
                ent["dir"] = WORD_CARDINAL[toks[i]]
                i += 1
        if ap["cls"] == "cardinal":
            ent["trail"] = (ent["lead"][0] + ent["dir"][0], ent["lead"][1] + ent["dir"][1])
        if ap["post"]:
            if i >= len(toks) or toks[i] != ";":
                raise DecodeError(f"expected ';' at {i}, got {toks[i] if i < len(toks) else None!r}")
            i += 1
        out.append((ent["lead"], ent["trail"], ent["conn"]))
    return out


def expected_adjacency(params: dict, g: dict):
    """multiset the adjacency region must encode: Counter of (lead, trail, flag) up to the allowed freedom"""
    from collections import Counter

    conn = {frozenset(e) for e in edges_of(g)}
    lat = [frozenset(e) for e in lattice_edges(g["r"], g["c"])]
    sub = params["adj"]["subset"]
    sel = lat if sub == "all" else [e for e in lat if (e in conn) == (sub == "conn")]
    return Counter({(e, e in conn): (2 if params["adj"]["permuter"] == "both" else 1) for e in sel})


def step_indices(params: dict, g: dict, sol) -> list[int]:
    n = len(sol)
    if params["path"]["step_size"] == "singles":
        return list(range(n))
    a = adj(g)
    idx = []
    for i, u in enumerate(sol):
        end = i == 0 or i == n - 1
        if end or len(a[tuple(u)]) > 2:
            idx.append(i)
    return idx


def relative_word(prev_move, move) -> str:
    if move == prev_move:
        return "FORWARD"
    if move == (-prev_move[0], -prev_move[1]):
        return "BACKWARD"
    h, m = COMPASS.index(prev_move), COMPASS.index(move)
    return "RIGHT" if (h + 1) % 4 == m else "LEFT"


def expected_path_tokens(params: dict, g: dict, sol) -> list[str]:
    pp, cp = params["path"], params["coord"]
    sol = [tuple(q) for q in sol]
    out: list[str] = []
    if "coord" in pp["steps"]:
        if pp["pre"]:
            out.append("STEP")
        out += coord_tokens(cp, sol[0])
        if pp["intra"]:
            out.append(":")
    idx = step_indices(params, g, sol)
    for i, j in zip(idx[:-1], idx[1:]):
        if pp["pre"]:
            out.append("STEP")
        for st_ in pp["steps"]:
            if st_ == "coord":
                out += coord_tokens(cp, sol[j])
            elif st_ == "cardinal":
                out.append(CARDINAL_WORD[(sol[i + 1][0] - sol[i][0], sol[i + 1][1] - sol[i][1])])
            elif st_ == "relative":
                prev = (-1, 0) if i == 0 else (sol[i][0] - sol[i - 1][0], sol[i][1] - sol[i - 1][1])
                out.append(relative_word(prev, (sol[i + 1][0] - sol[i][0], sol[i + 1][1] - sol[i][1])))
            elif st_ == "distance":
                out.append(f"+{j - i}")
            if pp["intra"]:
                out.append(":")
        if pp["post"]:
            out.append("THEN")
    return out


def check_stream(params: dict, tokens: list[str], kind: str, g: dict, sol) -> str | None:
    """None when the stream is a faithful encoding of the maze under `params`, else a description of the first problem"""
    from collections import Counter

    try:
        reg = split_regions(list(tokens), kind)
        ents = parse_adjacency(params, reg["adj"])
    except DecodeError as e:
        return str(e)
    r, c = g["r"], g["c"]
    got: Counter = Counter()
    seen_oriented: Counter = Counter()
    for lead, trail, flag in ents:
        if not (0 <= lead[0] < r and 0 <= lead[1] < c and 0 <= trail[0] < r and 0 <= trail[1] < c):
            return f"adjacency entry {lead}-{trail} leaves the {r}x{c} grid"
        if abs(lead[0] - trail[0]) + abs(lead[1] - trail[1]) != 1:
            return f"adjacency entry {lead}-{trail} is not a lattice edge"
        got[(frozenset((lead, trail)), flag)] += 1
        seen_oriented[(lead, trail)] += 1
    want = expected_adjacency(params, g)
    if got != want:
        extra = list((got - want).items())[:3]
        missing = list((want - got).items())[:3]
        return f"adjacency region encodes the wrong edge multiset: unexpected {[(sorted(e), f, n) for (e, f), n in extra]}, missing {[(sorted(e), f, n) for (e, f), n in missing]}"
    if params["adj"]["permuter"] == "both" and any(n != 1 for n in seen_oriented.values()):
        return "with both orientations requested an edge must appear once per orientation"
    if kind == "lattice":
        return None
    cp = params["coord"]
    if reg["origin"] != coord_tokens(cp, sol[0]):
        return f"origin region {reg['origin']} does not encode the start {tuple(sol[0])}"
    if params["seq"] == "AOP":
        if reg["target"]:
            return f"target region must be empty for an AOP tokenizer, got {reg['target']}"
    else:
        want_t = coord_tokens(cp, sol[-1]) + (["||"] if params["target"]["post"] else [])
        if reg["target"] != want_t:
            return f"target region {reg['target']} does not encode the end {tuple(sol[-1])} (expected {want_t})"
    if kind == "solved":
        want_p = expected_path_tokens(params, g, sol)
        if reg["path"] != want_p:
            k = next((i for i, (x, y) in enumerate(zip(reg["path"], want_p)) if x != y), min(len(reg["path"]), len(want_p)))
            return f"path region differs at token {k}: got {reg['path'][max(0, k - 2):k + 3]}, expected {want_p[max(0, k - 2):k + 3]} (lengths {len(reg['path'])}/{len(want_p)})"
    return None


LEGACY_PARAMS = {
    "UT": {"seq": "AOTP", "coord": {"kind": "UT"},
           "adj": {"cls": "coord", "post": True, "shuffle_d0": True, "ordinal": 1, "subset": "conn", "permuter": "random"},
           "target": {"post": False}, "path": {"step_size": "singles", "steps": ["coord"], "pre": False, "intra": False, "post": False}},
}
LEGACY_PARAMS["CTT"] = {**LEGACY_PARAMS["UT"], "coord": {"kind": "CTT", "pre": True, "intra": True, "post": True}}
