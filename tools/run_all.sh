#!/bin/sh
# run every claimed check (tier = $1, default quick) and summarise; evidence files are rewritten by the checks themselves
tier="${1:-quick}"; shift
here="$(cd "$(dirname "$0")/.." && pwd)"; cd "$here" || exit 2
props="${*:-C01 C02 C03 C04 C05 C06 C07 C08 C09 C10 C11 C12 C13 C14 C15 C16 C17 C18 C19 C20}"
rc=0
for p in $props; do
  s=$(date +%s)
  out=$(./check "$p" --tier "$tier" 2>&1); r=$?
  e=$(date +%s)
  [ "$tier" = thorough ] && [ $r -eq 0 ] && mkdir -p evidence_thorough && cp "evidence/$p.json" "evidence_thorough/$p.json"
  echo "$p exit=$r $((e-s))s $(echo "$out" | grep -E '^(OK|VIOLATION|KNOWN-FINDING|HARNESS)' | head -3 | tr '\n' ' ')"
  [ $r -ne 0 ] && rc=1
done
exit $rc
