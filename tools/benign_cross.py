#!/venv/bin/python
"""a property-preserving change for one property also has to leave every OTHER property's check quiet (the agents only vouch for their own
property, so an alarm here is first triaged: does the change break the other property, or does that check over-reach?).
Runs, for every benign/<ID>-<k>, the quick checks of the other properties whose anchored code lives in the files the patch touches.
usage: benign_cross.py [ID-prefix ...]  -> prints JSON rows; writes benign/CROSS.json when run without a selection"""
import glob, json, os, re, subprocess, sys
here = os.path.dirname(os.path.dirname(os.path.abspath(__file__)))
BY_FILE = {
    "generation/generators.py": ["C01", "C03", "C04", "C12", "C19"],
    "maze/lattice_maze.py": ["C02", "C03", "C09", "C10", "C13", "C17", "C07"],
    "token_utils.py": ["C06", "C07", "C13"],
    "dataset/maze_dataset.py": ["C03", "C04", "C05", "C08", "C11", "C18", "C16"],
    "dataset/dataset.py": ["C11", "C04", "C05", "C08"],
    "dataset/collected_dataset.py": ["C16", "C05"],
    "dataset/rasterized.py": ["C17"],
    "dataset/filters.py": ["C08", "C04"],
    "tokenization/maze_tokenizer.py": ["C06", "C07", "C14", "C15"],
    "tokenization/modular": ["C06", "C07", "C15"],
    "utils.py": ["C14", "C15", "C06"],
    "constants.py": ["C14", "C02", "C13", "C10"],
    "plotting/plot_maze.py": ["C20"],
}
sel = [a for a in sys.argv[1:] if not a.startswith("--")]
one_each = "--one-each" in sys.argv  # one neighbouring check per change (rotating), when the full matrix does not fit the time available
rows = []
nth = 0
for d in sorted(glob.glob(os.path.join(here, "benign", "C*-*"))):
    name = os.path.basename(d)
    if sel and not any(name.startswith(x) for x in sel):
        continue
    own = name.split("-")[0]
    files = re.findall(r"^\+\+\+ b/maze_dataset/(\S+)", open(os.path.join(d, "patch.diff")).read(), re.M)
    props = []
    for f in files:
        for k, v in BY_FILE.items():
            if f.startswith(k):
                props += [p for p in v if p != own and p not in props]
    if one_each and props:
        nth += 1
        props = [props[nth % len(props)]]
    for prop in props:
        p = subprocess.run([os.path.join(here, "tools", "benign_eval.sh"), d, prop], capture_output=True, text=True, env=dict(os.environ, BENIGN_SKIP_DEMO="1"))
        try:
            ev = json.loads(p.stdout.strip().splitlines()[-1])
            row = {"benign": name, "check": prop, "check_exit": ev.get("check_rc"), "signatures": ev.get("signatures", ""), "msg": ev.get("msg", "")}
        except Exception as e:  # noqa: BLE001
            row = {"benign": name, "check": prop, "error": str(e), "stderr": p.stderr[-300:]}
        rows.append(row)
        print(json.dumps(row), flush=True)
if not sel:
    prev = []
    if one_each and os.path.exists(os.path.join(here, "benign", "CROSS.json")):
        prev = [r for r in json.load(open(os.path.join(here, "benign", "CROSS.json"))) if (r["benign"], r["check"]) not in {(x["benign"], x["check"]) for x in rows}]
    json.dump(prev + rows, open(os.path.join(here, "benign", "CROSS.json"), "w"), indent=1)
print("ALARMS:", [(r["benign"], r["check"]) for r in rows if r.get("check_exit") != 0])
