#!/venv/bin/python
"""re-run the current quick checks against every kept seeded change (no test suite); writes seeded/REGRESSION.json and prints a table.
usage: seeded_regress.py [ID-prefix ...]"""
import json, os, subprocess, sys, glob
here = os.path.dirname(os.path.dirname(os.path.abspath(__file__)))
sel = sys.argv[1:]
rows = []
for d in sorted(glob.glob(os.path.join(here, "seeded", "C*-*"))):
    name = os.path.basename(d)
    if sel and not any(name.startswith(x) for x in sel):
        continue
    prop = name.split("-")[0]
    p = subprocess.run([os.path.join(here, "tools", "seeded_eval.py"), d, prop], capture_output=True, text=True)
    try:
        ev = json.loads(p.stdout.strip().splitlines()[-1])
        c = ev.get(f"check_{prop}", {})
        row = {"seeded": name, "applies": ev.get("applies"), "demo_changed": ev.get("demo_mutant_rc"), "demo_clean": ev.get("demo_clean_rc"), "exit": c.get("rc"), "seconds": c.get("s"), "signatures": c.get("signatures", [])[:4]}
    except Exception as e:  # noqa: BLE001
        row = {"seeded": name, "error": str(e), "stderr": p.stderr[-300:]}
    rows.append(row)
    print(json.dumps(row), flush=True)
out = os.path.join(here, "seeded", "REGRESSION.json")
if not sel:
    json.dump(rows, open(out, "w"), indent=1)
missed = [r["seeded"] for r in rows if r.get("exit") != 1]
print("MISSED:", missed)
