"""C02 - shortest-path solver is sound, optimal and complete on every maze."""

from __future__ import annotations

from functools import lru_cache

import numpy as np
from hypothesis import strategies as st

from mzverif import core
from mzverif import gen as G
from mzverif import lib as L
from mzverif import model as M
from mzverif.core import Sub, Violation, call, require

ID = "C02"
LEVEL = "exploration"
TECHNIQUE = "exhaustive enumeration (all graphs <= 3x3 x all ordered cell pairs) + Hypothesis graphs up to 12x12/30x30 + query sequences on one maze object (results overwritten by the caller, equal mazes rebuilt) + generator output with its metadata (every ordered pair); oracle = independent BFS model (validity predicate, not a single expected path); the same check on several cases at once, one thread each (interleavings sampled)"
RULE = (
    "case = (connection bits, start, end[, arg form, entry point]). Exhaustive part: every graph on every shape <=3x3 "
    "times every ordered pair of cells; random part: mixture of arbitrary / tree+extra-edges / forest graphs. "
    "Non-trivial = start != end, connected in the model, and the component contains a cycle (so a wrong tie rule or "
    "an inadmissible heuristic is observable); distinct by canonical case digest."
)
ASSUMPTIONS = [
    "the BFS reference model in mzverif/model.py is correct (it shares no code with the library)",
    "start/end are in-grid cells (the property quantifies over in-grid cells only)",
]


@lru_cache(maxsize=8192)
def _model(r: int, c: int, cl: str):
    g = {"r": r, "c": c, "cl": cl}
    a = M.adj(g)
    comps = M.components(a)
    comp_of = {}
    cyc = {}
    for k, comp in enumerate(comps):
        for u in comp:
            comp_of[u] = k
        cyc[k] = M.comp_has_cycle(g, comp)
    return g, a, comp_of, cyc


@lru_cache(maxsize=64)
def _bfs_cached(r, c, cl, s):
    _, a, _, _ = _model(r, c, cl)
    return M.bfs(a, s)


def check(case: dict):
    g = case["g"]
    s, e = tuple(case["s"]), tuple(case["e"])
    form = case.get("form", "tuple")
    entry = case.get("entry", "find_shortest_path")
    _, a, comp_of, cyc = _model(g["r"], g["c"], g["cl"])
    dist = _bfs_cached(g["r"], g["c"], g["cl"], s)
    connected = e in dist

    if form == "array":
        s_arg, e_arg = np.array(s), np.array(e)
    elif form == "list":
        s_arg, e_arg = list(s), list(e)
    else:
        s_arg, e_arg = s, e

    if entry == "find_shortest_path":
        m = L.lattice(g)
        fn = lambda: m.find_shortest_path(s_arg, e_arg)  # noqa: E731
    else:
        tm = L.targeted(g, s, e)
        from maze_dataset.maze.lattice_maze import SolvedMaze

        fn = lambda: SolvedMaze.from_targeted_lattice_maze(tm).solution  # noqa: E731

    if not connected:
        try:
            res = fn()
        except ValueError:
            return {"nt": False, "labels": ["disconnected"]}
        except Exception as ex:  # noqa: BLE001
            raise Violation(
                f"C02:{entry}:disconnected-raises:{type(ex).__name__}",
                f"expected ValueError for unconnected {s}->{e}, got {type(ex).__name__}: {ex}"[:300],
            )
        raise Violation(
            f"C02:{entry}:disconnected-returned-path",
            f"{s}->{e} are not connected but a path was returned: {np.asarray(res).tolist()}",
        )

    res = call(f"C02:{entry}", fn)
    arr = np.asarray(res)
    require(
        arr.ndim == 2 and arr.shape[1] == 2 and arr.shape[0] >= 1,
        f"C02:{entry}:shape",
        f"result has shape {arr.shape}",
    )
    require(np.issubdtype(arr.dtype, np.integer), f"C02:{entry}:dtype", f"dtype {arr.dtype}")
    path = L.as_cells(arr)
    if s == e:
        require(path == [s], f"C02:{entry}:self-query", f"query {s}->{s} returned {path}")
    prob = M.path_problems(g, a, path, start=s, end=e, need_shortest=False, need_simple=False)
    require(prob is None, f"C02:{entry}:unsound", f"{s}->{e}: {prob}; path={path}")
    require(
        len(path) - 1 == dist[e],
        f"C02:{entry}:not-shortest",
        f"{s}->{e}: returned {len(path) - 1} steps, minimum is {dist[e]}; path={path}",
    )
    labels = []
    nt = s != e and cyc[comp_of[s]]
    if s == e:
        labels.append("self")
    if nt:
        labels.append("cyclic-component")
        if M.count_shortest_paths(a, s, e) >= 2:
            labels.append("multiple-shortest-paths")
    return {"nt": nt, "labels": labels}


def check_sequence(case: dict):
    """several queries answered by ONE maze object, in the drawn order (state kept between calls would show here)"""
    g = case["g"]
    _, a, comp_of, cyc = _model(g["r"], g["c"], g["cl"])
    stored = case.get("stored")

    def build():
        # the solver is inherited by targeted and solved mazes; what such a maze stores (endpoints, a solution that may go the long
        # way round) must not change the answers
        if stored and case.get("holder") == "solved":
            return L.solved(g, stored)
        if stored and case.get("holder") == "targeted":
            return L.targeted(g, stored[0], stored[-1])
        return L.lattice(g)

    m = build()
    nt = False
    n_conn = 0
    for k, q in enumerate(case["queries"]):
        s, e = tuple(q[0]), tuple(q[1])
        dist = M.bfs(a, s)
        form = ("tuple", "array", "list")[k % 3]
        s_arg, e_arg = (np.array(s), np.array(e)) if form == "array" else ((list(s), list(e)) if form == "list" else (s, e))
        if e not in dist:
            try:
                res = m.find_shortest_path(s_arg, e_arg)
            except ValueError:
                continue
            except Exception as ex:  # noqa: BLE001
                raise Violation(f"C02:sequence:disconnected-raises:{type(ex).__name__}", f"query {k} {s}->{e}: {type(ex).__name__}: {ex}"[:300])
            raise Violation("C02:sequence:disconnected-returned-path", f"query {k} of {case['queries']}: {s}->{e} not connected but got {np.asarray(res).tolist()}")
        res = call("C02:sequence", m.find_shortest_path, s_arg, e_arg)
        path = L.as_cells(np.asarray(res))
        prob = M.path_problems(g, a, path, start=s, end=e, need_shortest=False, need_simple=False)
        require(prob is None, "C02:sequence:unsound", f"query {k} of {case['queries']}: {s}->{e}: {prob}; path={path}")
        require(len(path) - 1 == dist[e], "C02:sequence:not-shortest", f"query {k} of {case['queries']}: {s}->{e}: {len(path) - 1} steps, minimum {dist[e]}; path={path}")
        n_conn += 1
        nt = nt or (s != e and cyc[comp_of[s]])
        if case.get("scribble") and isinstance(res, np.ndarray) and res.flags.writeable:
            # a caller may do what it likes with the array it got; later answers must not depend on it
            res += 7
        if case.get("rebuild") and k % 2 == 1:
            m = build()  # an equal maze built separately must answer the same way
    return {"nt": nt and n_conn >= 2, "labels": ["sequence", "holder:" + (case.get("holder") or "lattice")] + (["scribble"] if case.get("scribble") else [])}


def check_generated(case: dict):
    """mazes as the generators hand them out (generation metadata attached): every ordered pair of cells against the BFS model"""
    m = call("C02:generator", L.run_generator, case)
    g = L.g_of(m)
    r, c = g["r"], g["c"]
    a = M.adj(g)
    cells = sorted(a)
    comps = M.components(a)
    nt = False
    for s in cells:
        dist = M.bfs(a, s)
        for e in cells:
            if (s[0] * 31 + s[1] * 17 + e[0] * 7 + e[1] + case["np_seed"]) % case.get("stride", 1) != 0:
                continue
            if e not in dist:
                try:
                    res = m.find_shortest_path(s, e)
                except ValueError:
                    continue
                except Exception as ex:  # noqa: BLE001
                    raise Violation(f"C02:generated:disconnected-raises:{type(ex).__name__}", f"{s}->{e}: {type(ex).__name__}: {ex}"[:300])
                raise Violation("C02:generated:disconnected-returned-path", f"{case['gen']} {case.get('kw')}: {s}->{e} not connected but got {np.asarray(res).tolist()}")
            try:
                res = m.find_shortest_path(s, e)
            except Exception as ex:  # noqa: BLE001
                raise Violation(f"C02:generated:raises:{type(ex).__name__}", f"{case['gen']} {case.get('kw')} on {r}x{c}: {s}->{e} are connected (distance {dist[e]}) "
                                f"but the solver raised {type(ex).__name__}: {str(ex)[:120]}; bits={g['cl']}")
            path = L.as_cells(np.asarray(res))
            prob = M.path_problems(g, a, path, start=s, end=e, need_shortest=False, need_simple=False)
            require(prob is None, "C02:generated:unsound", f"{s}->{e}: {prob}; path={path}")
            require(len(path) - 1 == dist[e], "C02:generated:not-shortest", f"{s}->{e}: {len(path) - 1} steps, minimum {dist[e]}; path={path}")
    multi = sum(1 for comp in comps if len(comp) >= 2)
    labels = [case["gen"]] + (["several-multi-cell-components"] if multi >= 2 else [])
    return {"nt": len(comps) >= 2 or M.n_edges(g) >= r * c, "labels": labels}


@st.composite
def _generated(draw, hi):
    name = draw(st.sampled_from(["gen_percolation", "gen_percolation", "gen_dfs_percolation", "gen_dfs", "gen_prim", "gen_wilson"]))
    case = draw(G.generator_call(lo=2, hi=hi, square=False, names=[name]))
    if name in ("gen_percolation", "gen_dfs_percolation") and draw(st.booleans()):
        case["kw"]["p"] = draw(st.sampled_from([0.2, 0.3, 0.4, 0.5, 0.6]))
    case["stride"] = 1 if case["r"] * case["c"] <= 30 else 3
    return case


@st.composite
def _sequences(draw, hi):
    g = draw(G.shaped_graphs(2, hi, False))
    r, c = g["r"], g["c"]
    a = M.adj(g)
    qs = []
    for _ in range(draw(st.integers(2, 8))):
        s = draw(G.cell_in(r, c))
        mode = draw(st.sampled_from(["comp", "comp", "any", "repeat", "reverse"]))
        if mode == "repeat" and qs:
            qs.append(draw(st.sampled_from(qs)))
            continue
        if mode == "reverse" and qs:
            q = draw(st.sampled_from(qs))
            qs.append([q[1], q[0]])
            continue
        if mode == "comp":
            e = list(draw(st.sampled_from(sorted(M.bfs(a, tuple(s))))))
        else:
            e = draw(G.cell_in(r, c))
        qs.append([s, e])
    case = {"g": g, "queries": qs, "scribble": draw(st.booleans()), "rebuild": draw(st.booleans())}
    holder = draw(st.sampled_from(["lattice", "targeted", "solved", "solved"]))
    if holder != "lattice":
        # a self-avoiding walk (not necessarily shortest) stored in the maze; its endpoints are queried in both directions
        p = [tuple(draw(G.cell_in(r, c)))]
        for _ in range(draw(st.sampled_from([1, 2, 3, 5, 8, 13, 21]))):
            nxt = [v for v in sorted(a[p[-1]]) if v not in p]
            if not nxt:
                break
            p.append(draw(st.sampled_from(nxt)))
        case["holder"], case["stored"] = holder, [list(q) for q in p]
        pos = draw(st.integers(0, len(qs)))
        case["queries"] = qs[:pos] + [[list(p[0]), list(p[-1])], [list(p[-1]), list(p[0])]] + qs[pos:]
    return case


def _route_cells(n, kind):
    """a corridor between opposite corners of an n x n grid: along the border (two ways) or a staircase along the diagonal"""
    if kind == "border-a":
        return [(0, j) for j in range(n)] + [(i, n - 1) for i in range(1, n)]
    if kind == "border-b":
        return [(i, 0) for i in range(n)] + [(n - 1, j) for j in range(1, n)]
    p = [(0, 0)]
    while p[-1] != (n - 1, n - 1):
        i, j = p[-1]
        p.append((i, j + 1) if (i == j and j + 1 < n) or i + 1 >= n else (i + 1, j))
    return p


def check_routes(case: dict):
    """large mazes made of a few long corridors between far-apart cells whose lengths differ by a few steps (plus drawn shortcuts);
    the optimum is known to the BFS model, and where the best route lies - along the border, along the diagonal - is part of the case"""
    n = case["n"]
    bits = [0] * (2 * n * n)
    for route in case["routes"]:
        cells = [tuple(q) for q in route]
        for u, v in zip(cells[:-1], cells[1:]):
            bits[M.edge_bit(n, n, min(u, v), max(u, v))] = 1
    g = M.g_make(n, n, bits)
    a = M.adj(g)
    m = L.lattice(g)
    for k, (s, e) in enumerate(case["queries"]):
        s, e = tuple(s), tuple(e)
        dist = M.bfs(a, s)
        if e not in dist:
            continue
        # endpoints as python tuples, int64 arrays or - where the coordinates fit - int8 arrays (what solutions loaded from a minimal file hold)
        form = (k + case.get("form0", 0)) % 3
        s_arg, e_arg = (s, e) if form == 0 else ((np.array(s), np.array(e)) if (form == 1 or n > 128) else (np.array(s, dtype=np.int8), np.array(e, dtype=np.int8)))
        res = call("C02:routes", m.find_shortest_path, s_arg, e_arg)
        path = L.as_cells(np.asarray(res))
        prob = M.path_problems(g, a, path, start=s, end=e, need_shortest=False, need_simple=False)
        require(prob is None, "C02:routes:unsound", f"{n}x{n} {s}->{e}: {prob}")
        require(len(path) - 1 == dist[e], "C02:routes:not-shortest", f"{n}x{n} maze of {len(case['routes'])} corridors, {s}->{e}: returned {len(path) - 1} steps, minimum is {dist[e]}")
    return {"nt": True, "labels": [f"n>={n // 20 * 20}", f"routes:{len(case['routes'])}"]}


@st.composite
def _routes(draw, sizes):
    n = draw(st.sampled_from(sizes))
    corner_a, corner_b = (0, 0), (n - 1, n - 1)
    routes = []
    kinds = draw(st.lists(st.sampled_from(["border-a", "border-b", "stairs", "stairs-long", "meander"]), min_size=2, max_size=4, unique=True))
    for kind in kinds:
        if kind in ("border-a", "border-b"):
            routes.append(_route_cells(n, kind))
        elif kind == "stairs":
            routes.append(_route_cells(n, "stairs"))
        elif kind == "stairs-long":
            # the staircase with k bulges of two extra steps each
            p = _route_cells(n, "stairs")
            k = draw(st.integers(1, 3))
            out, used = [], 0
            idx = 0
            while idx < len(p):
                out.append(p[idx])
                i, j = p[idx]
                if used < k and i == j and 3 <= i < n - 4 and (i % max(4, n // (k + 1)) == 0):
                    # (i,i) -> (i,i+3) -> (i+1,i+3) -> (i+1,i+2) -> (i+2,i+2): six steps where the staircase needs four
                    out += [(i, j + 1), (i, j + 2), (i, j + 3), (i + 1, j + 3), (i + 1, j + 2), (i + 2, j + 2)]
                    idx = p.index((i + 2, j + 2))
                    used += 1
                idx += 1
            routes.append(out)
        else:
            # a Z-shaped route through the middle column
            mid = n // 2
            routes.append([(0, j) for j in range(mid + 1)] + [(i, mid) for i in range(1, n)] + [(n - 1, j) for j in range(mid + 1, n)])
    qs = [[list(corner_a), list(corner_b)], [list(corner_b), list(corner_a)]]
    for _ in range(draw(st.integers(0, 3))):
        r1 = draw(st.sampled_from(routes))
        r2 = draw(st.sampled_from(routes))
        qs.append([list(draw(st.sampled_from(r1))), list(draw(st.sampled_from(r2)))])
    # a small ring hanging on one of the corridors close to an endpoint (a cycle right where the search starts or ends)
    for _ in range(draw(st.integers(0, 2))):
        r0 = draw(st.sampled_from(routes))
        i, j = draw(st.sampled_from(r0[: max(2, len(r0) // 8)] + r0[-max(2, len(r0) // 8):]))
        if i + 1 < n and j + 2 < n:
            routes.append([(i, j), (i, j + 1), (i, j + 2), (i + 1, j + 2), (i + 1, j + 1), (i + 1, j), (i, j)])
    # rings where the distance to a corner is 127 / 128 steps (where one-byte arithmetic on distances would wrap)
    for r0 in list(routes)[:3]:
        for (i, j) in r0:
            if (i + j in (127, 128) or (2 * (n - 1) - i - j) in (127, 128)) and i + 1 < n and j + 2 < n and draw(st.booleans()):
                routes.append([(i, j), (i, j + 1), (i, j + 2), (i + 1, j + 2), (i + 1, j + 1), (i + 1, j), (i, j)])
                break
    for _ in range(draw(st.integers(0, 2))):
        qs.append([[draw(st.integers(0, 8)), draw(st.integers(0, 8))], [n - 1 - draw(st.integers(0, 3)), n - 1 - draw(st.integers(0, 3))]])
    return {"n": n, "routes": [[list(q) for q in r] for r in routes], "queries": qs, "form0": draw(st.integers(0, 2))}


def check_twins(case: dict):
    """mazes of different shapes holding the same flags in the same flat order, solved one after the other in one process"""
    from mzverif.props import C13

    nt = False
    for r, c in case["order"]:
        g = {"r": r, "c": c, "cl": case["cl"]}
        a = M.adj(g)
        m = L.lattice(g)
        cells = sorted(a)
        for s_ in cells:
            dist = M.bfs(a, s_)
            for e_ in cells:
                if e_ not in dist:
                    try:
                        res = m.find_shortest_path(s_, e_)
                    except ValueError:
                        continue
                    except Exception as ex:  # noqa: BLE001
                        raise Violation(f"C02:twins:disconnected-raises:{type(ex).__name__}", f"{r}x{c} {s_}->{e_}: {str(ex)[:150]}")
                    raise Violation("C02:twins:disconnected-returned-path", f"{r}x{c} {s_}->{e_}: {np.asarray(res).tolist()}")
                res = call("C02:twins", m.find_shortest_path, s_, e_)
                path = L.as_cells(np.asarray(res))
                prob = M.path_problems(g, a, path, start=s_, end=e_, need_shortest=False, need_simple=False)
                require(prob is None, "C02:twins:unsound", f"{r}x{c} (queried in the order {case['order']}) {s_}->{e_}: {prob}; path={path}")
                require(len(path) - 1 == dist[e_], "C02:twins:not-shortest", f"{r}x{c} {s_}->{e_}: {len(path) - 1} steps, minimum {dist[e_]}")
                nt = nt or len(path) >= 3
    return {"nt": nt, "labels": ["twins"]}


def _twins_strategy():
    from mzverif.props import C13

    return C13._twins()


@st.composite
def _ring_gadget(draw):
    """a small ring whose cells lie 125..131 steps (or a drawn distance) from the goal, with one corridor from a ring cell to the goal:
    the two ways round the ring differ by two steps, and which one is shorter is decided right where one-byte distance arithmetic wraps"""
    n = draw(st.sampled_from([70, 100, 127, 128, 66]))
    tall = draw(st.booleans())
    h, w = (3, 2) if tall else (2, 3)
    D = draw(st.sampled_from([128, 127, 129, 126, 130, 131, 125]) | st.integers(4, 2 * (n - 1) - 6))
    # goal = bottom-right corner; ring top-left (i, j) with (n-1-i) + (n-1-j) = D
    tot = 2 * (n - 1) - D
    lo_i, hi_i = max(0, tot - (n - 1 - w)), min(n - 1 - h, tot)
    i = draw(st.integers(lo_i, hi_i)) if lo_i <= hi_i else max(0, min(n - 1 - h, tot // 2))
    j = max(0, min(n - 1 - w, tot - i))
    cells = [(i + a, j + b) for a in range(h) for b in range(w)]
    ring = [(i, j + b) for b in range(w)] + [(i + a, j + w - 1) for a in range(1, h)] + [(i + h - 1, j + b) for b in range(w - 2, -1, -1)] + [(i + a, j) for a in range(h - 2, 0, -1)]
    ring_route = ring + [ring[0]]
    exits = [q for q in ring if q[1] == j + w - 1 or q[0] == i + h - 1]
    ex = draw(st.sampled_from(exits))
    if ex[1] == j + w - 1:
        corridor = [(ex[0], c_) for c_ in range(ex[1], n)] + [(r_, n - 1) for r_ in range(ex[0] + 1, n)]
    else:
        corridor = [(r_, ex[1]) for r_ in range(ex[0], n)] + [(n - 1, c_) for c_ in range(ex[1] + 1, n)]
    goal = [n - 1, n - 1]
    qs = [[list(q), goal] for q in ring] + [[goal, list(q)] for q in ring[:2]]
    return {"n": n, "routes": [[list(q) for q in ring_route], [list(q) for q in corridor]], "queries": qs, "form0": draw(st.sampled_from([2, 2, 0, 1]))}


def _ring_gadget_cases(sizes, dists):
    """the same gadget, systematically: every ring orientation x exit cell x distance of the ring from the goal around the wrap values"""
    def cases(shard, nshards):
        k = 0
        for n in sizes:
            for D in dists:
                for tall in (False, True):
                    h, w = (3, 2) if tall else (2, 3)
                    tot = 2 * (n - 1) - D
                    if tot < 0:
                        continue
                    for pos in (0, 1):
                        lo_i, hi_i = max(0, tot - (n - 1 - w)), min(n - 1 - h, tot)
                        if lo_i > hi_i:
                            continue
                        i = lo_i if pos == 0 else (lo_i + hi_i) // 2
                        j = tot - i
                        ring = [(i, j + b) for b in range(w)] + [(i + a, j + w - 1) for a in range(1, h)] + [(i + h - 1, j + b) for b in range(w - 2, -1, -1)] + [(i + a, j) for a in range(h - 2, 0, -1)]
                        for ex in [q for q in ring if q[1] == j + w - 1 or q[0] == i + h - 1]:
                            k += 1
                            if k % nshards != shard:
                                continue
                            if ex[1] == j + w - 1:
                                corridor = [(ex[0], c_) for c_ in range(ex[1], n)] + [(r_, n - 1) for r_ in range(ex[0] + 1, n)]
                            else:
                                corridor = [(r_, ex[1]) for r_ in range(ex[0], n)] + [(n - 1, c_) for c_ in range(ex[1] + 1, n)]
                            goal = [n - 1, n - 1]
                            yield {"n": n, "routes": [[list(q) for q in ring + [ring[0]]], [list(q) for q in corridor]],
                                   "queries": [[list(q), goal] for q in ring] + [[goal, list(ring[0])]], "form0": 2 if n <= 128 else 1}

    return cases


def _exhaustive_medium(shard: int, nshards: int):
    yield from _exhaustive_cases(shard, nshards, G.medium_shapes())


def _exhaustive_cases(shard: int, nshards: int, shapes=None):
    k = 0
    for r, c in (shapes or G.small_shapes()):
        cells = [[i, j] for i in range(r) for j in range(c)]
        for g in G.all_graphs(r, c):
            k += 1
            if k % nshards != shard:
                continue
            for s in cells:
                for e in cells:
                    yield {"g": g, "s": s, "e": e}


def _strategy(hi: int):
    @st.composite
    def strat(draw):
        base = draw(G.graph_with_pair(lo=3, hi=hi, square=False))
        base["form"] = draw(st.sampled_from(["tuple", "array", "list"]))
        base["entry"] = draw(st.sampled_from(["find_shortest_path", "find_shortest_path", "from_targeted"]))
        return base

    return strat


def subs(tier: str):
    quick = tier == "quick"
    return [
        Sub(
            name="exhaustive<=3x3",
            check=check,
            kind="exhaustive",
            cases=_exhaustive_cases,
            exhaustive_flag=True,
        ),
        *([] if quick else [Sub(name="exhaustive-2x4-2x5-1xN", check=check, kind="exhaustive", cases=_exhaustive_medium, exhaustive_flag=True)]),
        Sub(
            name="random",
            check=check,
            kind="hypothesis",
            strategy=_strategy(12 if quick else 30),
            examples=150 if quick else 2500,
        ),
        Sub(name="query-sequences", check=check_sequence, kind="hypothesis", strategy=lambda: _sequences(10 if quick else 20), examples=60 if quick else 1000),
        Sub(name="concurrent-threads", check=core.threaded(check), kind="hypothesis", strategy=core.threaded_strategy(_strategy(8 if quick else 14)), examples=8 if quick else 150, ambient=False),
        Sub(name="competing-routes-at-scale", check=check_routes, kind="hypothesis", strategy=lambda: _routes([70, 61, 100, 127, 47, 80] if quick else [70, 61, 100, 127, 47, 80, 128, 150]), examples=4 if quick else 40),
        Sub(name="same-flags-other-shape", check=check_twins, kind="hypothesis", strategy=_twins_strategy, examples=15 if quick else 300),
        Sub(name="ring-at-the-wrap-distance", check=check_routes, kind="hypothesis", strategy=_ring_gadget, examples=6 if quick else 200),
        Sub(name="ring-at-the-wrap-distance-systematic", check=check_routes, kind="exhaustive",
            cases=_ring_gadget_cases([70, 127] if quick else [66, 70, 100, 127, 128, 200], list(range(124, 135)) if quick else list(range(120, 140)) + list(range(250, 262)))),
        Sub(name="generated-mazes-with-metadata", check=check_generated, kind="hypothesis", strategy=lambda: _generated(7 if quick else 9), examples=40 if quick else 150),
    ]
