#!/bin/sh
# usage: try_patch.sh <patch.diff> <PROP> [tier]  - run a check against a scratch worktree of /repo with the patch applied (never touches /repo itself)
patch="$(realpath "$1")"; prop="$2"; tier="${3:-quick}"
wt="$(mktemp -d /tmp/mztry-XXXXXX)"; rmdir "$wt"
git -C /repo worktree add -q --detach "$wt" HEAD && git -C "$wt" apply "$patch" || { echo "patch does not apply"; git -C /repo worktree remove --force "$wt"; exit 2; }
cd "$(dirname "$0")/.." && VERIF_REPO="$wt" ./check "$prop" --tier "$tier" 2>&1 | grep -E "^(OK|VIOLATION|HARNESS|  signature|NOTE)" | sort | uniq -c | head -12
git -C /repo worktree remove --force "$wt"
