"""C19 - Wilson's generator samples spanning trees uniformly."""

from __future__ import annotations

import math
from collections import Counter

import numpy as np

from mzverif import core
from mzverif import model as M
from mzverif.core import Failure, Stats, Sub, Violation

ID = "C19"
LEVEL = "exploration"
TECHNIQUE = "statistical oracle: N seeded draws per enumerable grid compared with the exact spanning-tree set (membership, coverage) and the uniform law (Pearson chi-square over trees and per-edge inclusion marginals); on grids too large to enumerate (4x4..7x7, thorough ..10x10) exact single-edge and edge-pair inclusion probabilities from the transfer-current theorem; alarm only at p < 1e-9 (Bonferroni); dataset route also with pool workers replaced after 25 tasks"
RULE = (
    "case = (grid shape, list of numpy seeds, draws per seed); each seed re-seeds the global numpy RNG before a block of draws. "
    "evaluations = draws; a draw is non-trivial when the grid has >= 2 spanning trees; distinct_nontrivial counts distinct "
    "(shape, tree) outcomes observed (4 + 15 + 15 + 192 = 226 possible)."
)
ASSUMPTIONS = [
    "a violation is reported only if a chi-square tail probability is below 1e-9 (or an output is not a spanning tree / a tree never appears with N/k >= 300): false-alarm probability per run < 1e-7",
    "block seeds are derived deterministically from VERIF_SEED (blake2b), so a run is a pure function of the code and the seed",
    "the full uniform law is decided on grids whose spanning trees can be enumerated (2x2 .. 3x3, thorough: up to 3x4); on larger grids (4x4 .. 7x7, thorough up to 10x10) "
    "every draw must be a spanning tree and the single-edge and edge-pair inclusion frequencies are compared with their exact values under the uniform law "
    "(Kirchhoff / transfer-current theorem, computed by the harness from the Laplacian pseudo-inverse) - necessary conditions of uniformity, Bonferroni-corrected at 1e-9",
]

ALPHA = 1e-9
SHAPES = [(2, 2), (2, 3), (3, 2), (3, 3)]
_trees_cache: dict = {}


def trees(r, c):
    if (r, c) not in _trees_cache:
        _trees_cache[(r, c)] = M.enumerate_spanning_trees(r, c)
    return _trees_cache[(r, c)]


def gammq(a: float, x: float) -> float:
    """regularised upper incomplete gamma Q(a,x) (Numerical Recipes: series for x<a+1, continued fraction otherwise)"""
    if x <= 0:
        return 1.0
    gln = math.lgamma(a)
    if x < a + 1:
        ap, s, d = a, 1.0 / a, 1.0 / a
        for _ in range(10000):
            ap += 1
            d *= x / ap
            s += d
            if abs(d) < abs(s) * 1e-16:
                break
        return max(0.0, 1.0 - s * math.exp(-x + a * math.log(x) - gln))
    b = x + 1 - a
    c = 1e300
    d = 1.0 / b
    h = d
    for i in range(1, 10000):
        an = -i * (i - a)
        b += 2
        d = an * d + b
        if abs(d) < 1e-300:
            d = 1e-300
        c = b + an / c
        if abs(c) < 1e-300:
            c = 1e-300
        d = 1.0 / d
        de = d * c
        h *= de
        if abs(de - 1) < 1e-16:
            break
    return math.exp(-x + a * math.log(x) - gln) * h


def chi2_sf(stat: float, dof: int) -> float:
    return gammq(dof / 2.0, stat / 2.0)


def sample_block(r: int, c: int, seed_val: int, n: int) -> Counter:
    from maze_dataset.generation.generators import LatticeMazeGenerators

    np.random.seed(seed_val % (2**32))
    cnt: Counter = Counter()
    shape = np.array([r, c])
    for _ in range(n):
        m = core.call("C19:gen_wilson", LatticeMazeGenerators.gen_wilson, shape)
        cl = np.asarray(m.connection_list)
        if cl.shape != (2, r, c):
            raise Violation("C19:shape", f"{cl.shape} for {r}x{c}")
        cnt["".join("1" if b else "0" for b in cl.reshape(-1).tolist())] += 1
    return cnt


def evaluate(r: int, c: int, cnt: Counter, tag: str):
    """returns (summary dict) or raises Violation"""
    T = trees(r, c)
    Tset = set(T)
    N = sum(cnt.values())
    k = len(T)
    bad = [t for t in cnt if t not in Tset]
    if bad:
        raise Violation("C19:not-a-spanning-tree", f"{r}x{c}: output {bad[0]} is not a spanning tree of the grid ({len(bad)} distinct such outputs)")
    if N / k >= 300:
        missing = [t for t in T if t not in cnt]
        if missing:
            raise Violation("C19:tree-never-drawn", f"{r}x{c} {tag}: {len(missing)} of {k} spanning trees never appeared in {N} draws, e.g. {missing[0]}")
    exp = N / k
    stat = sum((cnt.get(t, 0) - exp) ** 2 / exp for t in T)
    p = chi2_sf(stat, k - 1)
    if N / k >= 50 and p < ALPHA:
        raise Violation("C19:not-uniform", f"{r}x{c} {tag}: chi2={stat:.1f} dof={k - 1} p={p:.3g} over {N} draws; min/max count {min(cnt.get(t, 0) for t in T)}/{max(cnt.values())} expected {exp:.1f}")
    # per-edge inclusion marginals
    E = M.lattice_edges(r, c)
    worst = 1.0
    for u, v in E:
        bi = M.edge_bit(r, c, u, v)
        pe = sum(1 for t in T if t[bi] == "1") / k
        obs = sum(n for t, n in cnt.items() if t[bi] == "1")
        if 0 < pe < 1:
            z2 = (obs - N * pe) ** 2 / (N * pe * (1 - pe))
            pv = chi2_sf(z2, 1)
            worst = min(worst, pv)
            if N >= 1000 and pv < ALPHA / len(E):
                raise Violation("C19:edge-marginal", f"{r}x{c} {tag}: edge {u}-{v} present in {obs}/{N} draws, exact marginal {pe:.4f}, p={pv:.3g}")
    return {"N": N, "trees": k, "observed": len(cnt), "chi2": round(stat, 2), "p": p, "min_edge_p": worst}


def sample_edge_block(r: int, c: int, seed_val: int, n: int):
    """n seeded draws on a grid too large to enumerate its trees: returns (N, single-edge counts, pair counts); every draw must be a spanning tree"""
    from maze_dataset.generation.generators import LatticeMazeGenerators

    np.random.seed(seed_val % (2**32))
    E = M.lattice_edges(r, c)
    bi = [M.edge_bit(r, c, u, v) for u, v in E]
    X = np.zeros((n, len(E)), dtype=np.int64)
    shape = np.array([r, c])
    for k in range(n):
        m = core.call("C19:gen_wilson", LatticeMazeGenerators.gen_wilson, shape)
        cl = np.asarray(m.connection_list)
        if cl.shape != (2, r, c):
            raise Violation("C19:shape", f"{cl.shape} for {r}x{c}")
        flat = cl.reshape(-1)
        if int(flat.sum()) != r * c - 1 or not M.is_spanning_tree(M.g_from_cl(cl)):
            raise Violation("C19:not-a-spanning-tree", f"{r}x{c} seed={seed_val} draw {k}: output {''.join('1' if b else '0' for b in flat.tolist())} is not a spanning tree of the grid")
        X[k] = flat[bi]
    return n, X.sum(axis=0), X.T @ X


_probs_cache: dict = {}


def evaluate_edges(r: int, c: int, N: int, single, pair, tag: str):
    if (r, c) not in _probs_cache:
        _probs_cache[(r, c)] = M.edge_inclusion_probs(r, c)
    E, p1, p2 = _probs_cache[(r, c)]
    m = len(E)
    ntests = m + len(p2)
    worst = (1.0, None)
    for x in range(m):
        pe = p1[x]
        if 1e-9 < pe < 1 - 1e-9 and N * min(pe, 1 - pe) >= 50:
            z2 = (float(single[x]) - N * pe) ** 2 / (N * pe * (1 - pe))
            pv = chi2_sf(z2, 1)
            worst = min(worst, (pv, f"edge {E[x][0]}-{E[x][1]}"))
            if pv < ALPHA / ntests:
                raise Violation("C19:edge-marginal", f"{r}x{c} {tag}: edge {E[x][0]}-{E[x][1]} present in {int(single[x])}/{N} draws, exact marginal {pe:.5f}, p={pv:.3g}")
    for (x, y), pe in p2.items():
        if 1e-9 < pe < 1 - 1e-9 and N * min(pe, 1 - pe) >= 50:
            obs = float(pair[x][y])
            z2 = (obs - N * pe) ** 2 / (N * pe * (1 - pe))
            pv = chi2_sf(z2, 1)
            worst = min(worst, (pv, f"edges {E[x]} & {E[y]}"))
            if pv < ALPHA / ntests:
                raise Violation("C19:edge-pair-law", f"{r}x{c} {tag}: edges {E[x][0]}-{E[x][1]} and {E[y][0]}-{E[y][1]} both present in {int(obs)}/{N} draws, "
                                f"exact joint probability {pe:.5f} (transfer-current theorem), p={pv:.3g}")
    return {"N": N, "edges": m, "tests": ntests, "min_p": worst[0], "at": worst[1]}


def check_edges(case: dict):
    """replay entry for the larger-grid edge laws"""
    r, c = case["r"], case["c"]
    tot = None
    for sd in case["seeds"]:
        n, s1, s2 = sample_edge_block(r, c, sd, case["n"])
        tot = (n, s1, s2) if tot is None else (tot[0] + n, tot[1] + s1, tot[2] + s2)
    evaluate_edges(r, c, tot[0], tot[1], tot[2], "pooled")
    return {"nt": True, "labels": [f"{r}x{c}"]}


def _run_edges(total_by_shape: dict, blocks: int):
    def run(seed_val: int):
        stats = Stats()
        fails: list = []
        tasks, meta = [], []
        for (r, c), N in total_by_shape.items():
            n = max(1, N // blocks)
            for b in range(blocks):
                sd = core.derive_seed(seed_val, "edges", r, c, b) % (2**32)
                tasks.append((_edge_task, (r, c, sd, n)))
                meta.append((r, c, sd, n))
        results = core.parallel(tasks)
        by_shape: dict = {}
        for (r, c, sd, n), res in zip(meta, results):
            by_shape.setdefault((r, c), []).append((sd, n, res))
        summaries = {}
        for (r, c), lst in by_shape.items():
            case = {"r": r, "c": c, "seeds": [sd for sd, _, _ in lst], "n": lst[0][1]}
            bad = [res for _, _, res in lst if isinstance(res, tuple) and res and res[0] == "violation"]
            N = 0
            if bad:
                fails.append(Failure("wilson-edge-laws", bad[0][1], bad[0][2], {"r": r, "c": c, "seeds": [bad[0][3]], "n": lst[0][1]}))
            else:
                N = sum(res[0] for _, _, res in lst)
                s1 = sum(res[1] for _, _, res in lst)
                s2 = sum(res[2] for _, _, res in lst)
                try:
                    summaries[f"{r}x{c}"] = evaluate_edges(r, c, N, s1, s2, "pooled")
                except Violation as v:
                    fails.append(Failure("wilson-edge-laws", v.sig, v.msg, case))
            stats.evaluations += N
            stats.nontrivial.add(core.digest(["edges", r, c]))
            stats.labels[f"{r}x{c}"] += N
            if len(stats.samples) < 3:
                stats.samples.append({"r": r, "c": c, "seeds": case["seeds"][:3], "n_per_seed": case["n"]})
        stats.extra["summaries"] = summaries
        return stats, fails

    return run


def _edge_task(r, c, sd, n):
    try:
        return sample_edge_block(r, c, sd, n)
    except Violation as v:
        return ("violation", v.sig, v.msg, sd)


_DATASET_CODE = r"""
import sys, json, warnings
warnings.filterwarnings("ignore")
sys.path.insert(0, {verif!r})
from collections import Counter
import numpy as np
from maze_dataset import MazeDataset, MazeDatasetConfig
from maze_dataset.generation.generators import GENERATORS_MAP
req = json.load(sys.stdin)
if req.get("start_method"):
    import multiprocessing
    multiprocessing.set_start_method(req["start_method"], force=True)
cnt = Counter()
for sd in req["seeds"]:
    cfg = MazeDatasetConfig(name="w", grid_n=req["n"], n_mazes=req["per_seed"], seed=sd, maze_ctor=GENERATORS_MAP["gen_wilson"], endpoint_kwargs=req["endpoint"])
    kw = dict(gen_parallel=True, pool_kwargs=dict(processes=req["procs"], **(req.get("pool_extra") or dict()))) if req["procs"] else dict()
    ds = MazeDataset.generate(cfg, **kw)
    assert len(ds) == req["per_seed"], len(ds)
    for m in ds.mazes:
        cnt["".join("1" if b else "0" for b in np.asarray(m.connection_list).reshape(-1).tolist())] += 1
print("RESULT" + json.dumps(cnt))
"""


def sample_datasets(n: int, seeds, per_seed: int, procs: int, endpoint: dict, start_method=None, pool_extra=None) -> Counter:
    """mazes as datasets hand them out (serial, or generated by a pool of `procs` workers), in a fresh top-level interpreter"""
    import json

    out = core.run_python(_DATASET_CODE.format(verif=core.VERIF_DIR), stdin=json.dumps({"n": n, "seeds": list(seeds), "per_seed": per_seed, "procs": procs, "endpoint": endpoint, "start_method": start_method, "pool_extra": pool_extra}), timeout=1500)
    line = next(ln for ln in out.splitlines() if ln.startswith("RESULT"))
    return Counter(json.loads(line[len("RESULT"):]))


def check_datasets(case: dict):
    """replay entry for the dataset route"""
    cnt = sample_datasets(case["n"], case["seeds"], case["per_seed"], case["procs"], case["endpoint"], case.get("start_method"), case.get("pool_extra"))
    evaluate(case["n"], case["n"], cnt, f"datasets procs={case['procs']} endpoint={case['endpoint']} start_method={case.get('start_method')} pool={case.get('pool_extra')}")
    return {"nt": True, "labels": ["datasets"]}


def _run_datasets(total: int):
    def run(seed_val: int):
        import concurrent.futures

        stats, fails = Stats(), []
        variants = [("serial", 0, {}, None), ("serial-deadends", 0, {"deadend_start": True, "deadend_end": True}, None), ("pool-of-4", 4, {}, None),
                    ("pool-of-3-deadend-start", 3, {"deadend_start": True}, None), ("pool-of-4-spawned-workers", 4, {}, "spawn"),
                    # further pool options a caller may pass through pool_kwargs: workers that are replaced after a number of tasks
                    ("pool-of-2-workers-replaced-every-25-tasks", 2, {}, None, {"maxtasksperchild": 25})]
        cases = []
        for k, (nm, procs, ep, sm, *px) in enumerate(variants):
            seeds = [int(core.derive_seed(seed_val, "ds", nm, j) % (2**31)) for j in range(4 if sm is None else 2)]
            cases.append((nm, {"n": 3, "seeds": seeds, "per_seed": total // len(seeds), "procs": procs, "endpoint": ep, "start_method": sm, "pool_extra": px[0] if px else None}))
        with concurrent.futures.ThreadPoolExecutor(max_workers=len(cases)) as ex:
            results = list(ex.map(lambda c: sample_datasets(c[1]["n"], c[1]["seeds"], c[1]["per_seed"], c[1]["procs"], c[1]["endpoint"], c[1].get("start_method"), c[1].get("pool_extra")), cases))
        summaries = {}
        for (nm, case), cnt in zip(cases, results):
            try:
                summaries[nm] = evaluate(3, 3, cnt, f"datasets:{nm}")
            except Violation as v:
                fails.append(Failure("wilson-via-datasets", v.sig, v.msg, case))
            stats.evaluations += sum(cnt.values())
            stats.labels[nm] += sum(cnt.values())
            for t in cnt:
                stats.nontrivial.add(core.digest(["ds", nm, t]))
            if len(stats.samples) < 3:
                stats.samples.append({"variant": nm, **{k: case[k] for k in ("n", "per_seed", "procs", "endpoint", "start_method")}, "seeds": case["seeds"][:2]})
        stats.extra["summaries"] = summaries
        return stats, fails

    return run


def check(case: dict):
    """replay entry: re-sample everything the case describes, block by block and pooled"""
    r, c = case["r"], case["c"]
    pooled: Counter = Counter()
    for sd in case["seeds"]:
        blk = sample_block(r, c, sd, case["n"])
        evaluate(r, c, blk, f"seed={sd}")
        pooled.update(blk)
    evaluate(r, c, pooled, "pooled")
    return {"nt": True, "labels": [f"{r}x{c}"]}


def _block_task(r, c, sd, n):
    try:
        return sample_block(r, c, sd, n)
    except Violation as v:
        return ("violation", v.sig, v.msg, sd)


def _run(total_by_shape: dict, blocks: int):
    def run(seed_val: int):
        stats = Stats()
        fails: list = []
        tasks, meta = [], []
        for (r, c), N in total_by_shape.items():
            n = N // blocks
            for b in range(blocks):
                sd = core.derive_seed(seed_val, r, c, b) % (2**32)
                tasks.append((_block_task, (r, c, sd, n)))
                meta.append((r, c, sd, n))
        try:
            results = core.parallel(tasks)
        except core.HarnessError as e:
            if "Violation" in str(e):
                raise
            raise
        summaries = {}
        by_shape: dict = {}
        for (r, c, sd, n), cnt in zip(meta, results):
            by_shape.setdefault((r, c), []).append((sd, n, cnt))
        for (r, c), lst in by_shape.items():
            pooled: Counter = Counter()
            case = {"r": r, "c": c, "seeds": [sd for sd, _, _ in lst], "n": lst[0][1]}
            crashed = [cnt for _, _, cnt in lst if isinstance(cnt, tuple)]
            if crashed:
                fails.append(Failure("wilson-uniform", crashed[0][1], crashed[0][2], {"r": r, "c": c, "seeds": [crashed[0][3]], "n": lst[0][1]}))
                lst = [(sd, n, cnt) for sd, n, cnt in lst if not isinstance(cnt, tuple)]
            try:
                for sd, n, cnt in lst:
                    evaluate(r, c, cnt, f"seed={sd}")
                    pooled.update(cnt)
                if not crashed:
                    summaries[f"{r}x{c}"] = evaluate(r, c, pooled, "pooled")
            except Violation as v:
                fails.append(Failure("wilson-uniform", v.sig, v.msg, case))
                pooled = Counter()
                for _, _, cnt in lst:
                    pooled.update(cnt)
            stats.evaluations += sum(pooled.values())
            for t in pooled:
                stats.nontrivial.add(core.digest([r, c, t]))
            stats.labels[f"{r}x{c}"] += sum(pooled.values())
            if len(stats.samples) < 4:
                top = pooled.most_common(1)[0] if pooled else None
                stats.samples.append({"r": r, "c": c, "seeds": case["seeds"][:3], "n_per_seed": case["n"],
                                      "example_outcome": top[0] if top else None, "its_count": top[1] if top else None})
        stats.extra["summaries"] = summaries
        stats.extra["alpha"] = ALPHA
        return stats, fails

    return run


def subs(tier: str):
    q = tier == "quick"
    totals = ({(2, 2): 20000, (2, 3): 20000, (3, 2): 20000, (3, 3): 64000} if q else
              {(2, 2): 400000, (2, 3): 400000, (3, 2): 400000, (3, 3): 2000000, (2, 4): 400000, (4, 2): 400000, (3, 4): 1200000, (4, 3): 1200000})
    big = ({(4, 4): 32000, (5, 5): 16000, (2, 6): 16000, (6, 3): 16000, (1, 6): 1600, (7, 7): 3200} if q else
           {(4, 4): 1600000, (5, 5): 800000, (2, 6): 800000, (6, 2): 800000, (6, 3): 800000, (3, 7): 800000, (1, 6): 16000, (7, 7): 400000, (10, 10): 100000, (4, 12): 100000})
    return [Sub("wilson-uniform", check, "custom", run=_run(totals, 16 if q else 32)),
            Sub("wilson-edge-laws", check_edges, "custom", run=_run_edges(big, 16 if q else 32)),
            Sub("wilson-via-datasets", check_datasets, "custom", run=_run_datasets(19200 if q else 192000))]
