#!/venv/bin/python
"""sensitivity run: apply hand-written breakages (DESIGN.md section 7, 'S') one at a time to a scratch worktree of /repo and
run the quick tier of the corresponding check against it.  usage: mutants.py [name-substring ...]   (writes /verif/sensitivity.json)"""
import json, os, shutil, subprocess, sys, tempfile, time
from concurrent.futures import ThreadPoolExecutor

G = "maze_dataset/generation/generators.py"
LM = "maze_dataset/maze/lattice_maze.py"
MD = "maze_dataset/dataset/maze_dataset.py"
DS = "maze_dataset/dataset/dataset.py"
CD = "maze_dataset/dataset/collected_dataset.py"
RA = "maze_dataset/dataset/rasterized.py"
TU = "maze_dataset/token_utils.py"
MT = "maze_dataset/tokenization/maze_tokenizer.py"
CO = "maze_dataset/constants.py"
UT = "maze_dataset/utils.py"
PM = "maze_dataset/plotting/plot_maze.py"

# (name, property, file, old, new)
MUTANTS = [
    ("dfs-edge-at-wrong-endpoint", "C01", G, "current_coord if (delta.sum() > 0) else chosen_neighbor", "chosen_neighbor if (delta.sum() > 0) else current_coord"),
    ("percolation-keeps-boundary-bits", "C01", G, "        connection_list = _fill_edges_with_walls(connection_list)\n\n        output: LatticeMaze = LatticeMaze(", "        output: LatticeMaze = LatticeMaze("),
    ("astar-inadmissible-heuristic", "C02", LM, "return np.abs(a[0] - b[0]) + np.abs(a[1] - b[1])", "return 2 * (np.abs(a[0] - b[0]) + np.abs(a[1] - b[1]))"),
    ("astar-never-relax", "C02", LM, "                elif g_temp >= g_score[neighbor]:", "                elif True:"),
    ("astar-path-not-reversed", "C02", LM, "return np.array(path[::-1])", "return np.array(path)"),
    ("astar-no-raise", "C02", LM, '        raise ValueError(\n            "A solution could not be found!",', '        return np.array([c_start, c_end])\n        raise ValueError(\n            "A solution could not be found!",'),
    ("ignore-deadend-end", "C03", LM, "        if deadend_end:\n            allowed_end_set = set(", "        if False:\n            allowed_end_set = set("),
    ("allowed-end-not-intersected", "C03", LM, "allowed_end_set = set(map(tuple, allowed_end)) & connected_component_set", "allowed_end_set = set(map(tuple, allowed_end))"),
    ("endpoints-with-replacement", "C03", LM, "                    size=2,\n                    replace=False,", "                    size=2,\n                    replace=True,"),
    ("no-set-reproducibility", "C04", DS, "        set_reproducibility(self.seed)", "        pass"),
    ("generate-without-reload", "C04", MD, "        cfg_cpy = MazeDatasetConfig.load(cfg.serialize())", "        cfg_cpy = cfg"),
    ("seed-only-python-random", "C04", DS, "        set_reproducibility(self.seed)", "        import random as _r; _r.seed(self.seed)"),
    ("minimal-wrong-pad-length", "C05", MD, "                    soln[:slen, ...],", "                    soln[: max(1, slen - 1), ...],"),
    ("soln-cat-split-offsets", "C05", MD, "maze_solutions_concat, np.cumsum(maze_solution_lengths)[:-1], axis=0", "maze_solutions_concat, np.cumsum(maze_solution_lengths)[:-1] + (np.arange(len(maze_solution_lengths) - 1) > 1), axis=0"),
    ("minimal-loader-drops-collected-meta", "C05", MD, '            generation_metadata_collected=data["generation_metadata_collected"],\n            mazes=[\n                SolvedMaze(\n                    clist,', '            generation_metadata_collected=None,\n            mazes=[\n                SolvedMaze(\n                    clist,'),
    ("threshold-gt", "C05", MD, "            and len(self) >= SERIALIZE_MINIMAL_THRESHOLD", "            and len(self) > SERIALIZE_MINIMAL_THRESHOLD"),
    ("swap-connector-wall-tokens", "C06", MT, "            conn_token_map: dict[bool, str] = {\n                True: VOCAB.CONNECTOR,\n                False: VOCAB.ADJLIST_WALL,\n            }\n            return [\n                lambda i: coord_tokenizer.to_tokens(edges[i, 0]),\n                lambda i: conn_token_map[is_conn[i]],\n                lambda i: get_cardinal_direction(edges[i]),", "            conn_token_map: dict[bool, str] = {\n                False: VOCAB.CONNECTOR,\n                True: VOCAB.ADJLIST_WALL,\n            }\n            return [\n                lambda i: coord_tokenizer.to_tokens(edges[i, 0]),\n                lambda i: conn_token_map[is_conn[i]],\n                lambda i: get_cardinal_direction(edges[i]),"),
    ("walls-subset-keeps-boundary", "C06", MT, "                conn_list[0, -1, :] = False\n                conn_list[1, :, -1] = False", "                conn_list[0, -1, :] = False"),
    ("relative-left-right-swapped", "C06", TU, "        case 1:\n            return VOCAB.PATH_LEFT\n        case -1:\n            return VOCAB.PATH_RIGHT", "        case 1:\n            return VOCAB.PATH_RIGHT\n        case -1:\n            return VOCAB.PATH_LEFT"),
    ("distance-off-by-one", "C06", MT, "            d: int = end_index - start_index\n", "            d: int = end_index - start_index + (1 if end_index - start_index > 3 else 0)\n"),
    ("from-adj-list-greater-endpoint", "C07", LM, "            if c_start[d] < c_end[d]:\n                x, y = c_start", "            if c_start[d] > c_end[d]:\n                x, y = c_start"),
    ("from-tokens-origin-target-swapped", "C07", LM, "                start_pos=start_pos,\n                end_pos=end_pos,\n            )\n\n            is_targeted = True", "                start_pos=end_pos,\n                end_pos=start_pos,\n            )\n\n            is_targeted = True"),
    ("from-legacy-ctt-maps-to-default", "C07", MT, "            TokenizationMode.AOTP_CTT_indexed: MazeTokenizerModular(\n                prompt_sequencer=PromptSequencers.AOTP(\n                    coord_tokenizer=CoordTokenizers.CTT()\n                )\n            ),", "            TokenizationMode.AOTP_CTT_indexed: MazeTokenizerModular(),"),
    ("path-length-gt", "C08", MD, "return len(maze.solution) >= min_length", "return len(maze.solution) > min_length"),
    ("percentile-ge", "C08", MD, "m for m in dataset if len(m.solution) > cutoff", "m for m in dataset if len(m.solution) >= cutoff"),
    ("truncate-one-too-many", "C08", MD, "cfg=dataset.cfg, mazes=dataset.mazes[:max_count]", "cfg=dataset.cfg, mazes=dataset.mazes[: max_count + 1]"),
    ("remove-duplicates-keep-first", "C08", MD, "            for maze_b in dataset.mazes[i + 1 :]:", "            for maze_b in dataset.mazes[:i]:"),
    ("filter-missing-update-config", "C08", DS, "        new_dataset.update_self_config()\n        return new_dataset\n\n    return wrapper", "        return new_dataset\n\n    return wrapper"),
    ("eq-ignores-end-pos", "C09", LM, "            for fld in dataclasses.fields(self)\n            if fld.compare", "            for fld in dataclasses.fields(self)\n            if fld.compare and fld.name != \"end_pos\""),
    ("hash-includes-meta", "C09", LM, "        return hash(np.asarray(self.connection_list, dtype=np.bool_).tobytes())", "        return hash((np.asarray(self.connection_list, dtype=np.bool_).tobytes(), str(self.generation_meta)))"),
    ("pixels-row-col-swap", "C10", LM, "                    pixel_grid[i * 2 + 1, j * 2 + 2] = True", "                    pixel_grid[j * 2 + 1, i * 2 + 2] = True"),
    ("from-pixels-walk-from-end", "C10", LM, "        solution: list[CoordTup] = [tuple(start_pos)]\n        while solution[-1] != tuple(end_pos):", "        start_pos, end_pos = end_pos, start_pos\n        solution: list[CoordTup] = [tuple(start_pos)]\n        while solution[-1] != tuple(end_pos):"),
    ("cache-read-no-try", "C11", DS, "                except Exception as e:\n                    print_log(f\"failed to load dataset: {e}\")", "                except FileNotFoundError as e:\n                    print_log(f\"failed to load dataset: {e}\")"),
    ("cache-skip-config-diff", "C11", DS, "        cfg_diff: dict = cfg.diff(output.cfg, of_serialized=True)", "        cfg_diff: dict = {} if did_load_local else cfg.diff(output.cfg, of_serialized=True)"),
    ("cache-not-saved-after-regenerate", "C11", DS, "        if save_local and not did_load_local:", "        if save_local and not did_load_local and not dataset_path.exists():"),
    ("meta-flag-historical-bug", "C12", G, "fully_connected=bool(len(visited_cells) == n_total_cells)", "fully_connected=bool(len(visited_cells) == n_accessible_cells)"),
    ("meta-visited-before-percolation", "C12", G, '        maze.generation_meta["visited_cells"] = maze.gen_connected_component_from(\n            start_coord\n        )\n\n        return maze', "        return maze"),
    ("dfs-loop-bound-off-by-one", "C12", G, "while stack and (len(visited_cells) < n_accessible_cells):", "while stack and (len(visited_cells) <= n_accessible_cells):"),
    ("degrees-drop-west", "C13", LM, "        degrees[:, 1:] += int_conn[1, :, :-1]  # Connections to west\n", ""),
    ("is-connection-direction-flipped", "C13", TU, "        (sorted_edges[:, 1, :] - sorted_edges[:, 0, :])[:, 0] == 0", "        (sorted_edges[:, 1, :] - sorted_edges[:, 0, :])[:, 1] == 0"),
    ("fork-threshold-endpoints", "C13", LM, "            theshold: int = 1 if is_endpoint else 2", "            theshold: int = 2"),
    ("neighbors-bound-off-by-one", "C13", LM, "                (0 <= neighbor[0] < self.grid_shape[0])  # in x bounds", "                (0 < neighbor[0] < self.grid_shape[0])  # in x bounds"),
    ("vocab-fields-reordered", "C14", CO, '    ("PATH_LEFT", str, field(default="LEFT")),\n    ("PATH_RIGHT", str, field(default="RIGHT")),', '    ("PATH_RIGHT", str, field(default="RIGHT")),\n    ("PATH_LEFT", str, field(default="LEFT")),'),
    ("corner-first-key-changed", "C14", UT, "key=lambda x: (max(x), x if x[0] % 2 == 0 else x[::-1])", "key=lambda x: (max(x) if max(x) != 7 else 8.5, x if x[0] % 2 == 0 else x[::-1])"),
    ("keyerror-escapes", "C14", MT, "            return [VOCAB_TOKEN_TO_INDEX[token] for token in text]\n        except KeyError as e:", "            return [VOCAB_TOKEN_TO_INDEX[token] for token in text]\n        except IndexError as e:"),
    ("stringify-drops-bool-value", "C15", MT, '            return f"{k}={str(v)[0]}"', '            return f"{k}={str(v)[0] if k != \'intra\' else \'_\'}"'),
    ("collection-searchsorted-right", "C16", CD, "np.searchsorted(self.dataset_cum_lengths, index + 1)", 'np.searchsorted(self.dataset_cum_lengths, index + 1, side="right")'),
    ("collection-adjust-by-own-cum", "C16", CD, "index_adjusted -= self.dataset_cum_lengths[dataset_idx - 1]", "index_adjusted -= self.dataset_cum_lengths[dataset_idx] - len(self.maze_datasets[dataset_idx])  if len(self.maze_datasets[dataset_idx]) != 2 else self.dataset_cum_lengths[dataset_idx - 1] + 1"),
    ("raster-path-leaks-into-input", "C17", RA, "    problem_maze[(problem_maze == PixelColors.PATH).all(axis=-1)] = PixelColors.OPEN", "    pass"),
    ("raster-endpoints-opened-always", "C17", RA, "    if endpoints_as_open:", "    if endpoints_as_open or maze.solution.shape[0] == 2:"),
    ("cfg-no-tuple-restoration", "C18", MD, "                    else [tuple(x) for x in v]  # muutils/zanj saves tuples as lists", "                    else v  # muutils/zanj saves tuples as lists"),
    ("cfg-fname-without-n-mazes", "C18", MD, "-n{shorten_numerical_to_str(self.n_mazes)}-a_", "-a_"),
    ("cfg-hash-sort-keys-drops-order", "C18", MD, "        return stable_hash(json.dumps(self.serialize()))", "        return stable_hash(json.dumps({k: v for k, v in self.serialize().items() if k != 'seed'}))"),
    ("wilson-biased-neighbour", "C19", G, "next_cell: Coord = neighbors[np.random.choice(neighbors.shape[0])]", "next_cell: Coord = neighbors[np.random.choice(neighbors.shape[0]) if np.random.rand() < 0.9 else 0]"),
    ("plot-transpose", "C20", PM, "        point = np.array([point[1], point[0]])", "        point = np.array([point[0], point[1]])"),
    ("plot-strip-test-inverted", "C20", PM, "                # Right connection\n                if not connection_list_processed[1, row, col]:", "                # Right connection\n                if connection_list_processed[1, row, col]:"),
    ("plot-path-from-second-cell", "C20", PM, "            [self._rowcol_to_coord(coord) for coord in path_format.path]", "            [self._rowcol_to_coord(coord) for coord in path_format.path[1:]]"),
    ("percolation-p1-not-all", "C01", G, "connection_list: ConnectionList = np.random.rand(lattice_dim, *grid_shape) < p", "connection_list: ConnectionList = np.random.rand(lattice_dim, *grid_shape) < p * 0.999"),
    ("aop-target-region-nonempty", "C06", MT, "                VOCAB.TARGET_START,\n                VOCAB.TARGET_END,\n                VOCAB.PATH_START,", "                VOCAB.TARGET_START,\n                *origin,\n                VOCAB.TARGET_END,\n                VOCAB.PATH_START,"),
    ("raster-isolated-ignores-left", "C17", LM, "        & padded_wall_mask[1:-1, :-2]  # left\n", ""),
    ("wilson-loop-at-walk-start-not-erased", "C19", G, "                if loop_exit is not None:", "                if loop_exit:"),
    ("enumeration-lets-distance-alone-through", "C15", [
        (MT, "            if len(self.step_tokenizers) == 1 and isinstance(\n                self.step_tokenizers[0], StepTokenizers.Distance\n            ):", "            if False and isinstance(\n                self.step_tokenizers[0], StepTokenizers.Distance\n            ):"),
        ("maze_dataset/tokenization/all_tokenizers.py", "        StepTokenizers.StepTokenizerPermutation: lambda x: len(set(x)) == len(x)\n        and x != (StepTokenizers.Distance(),),", "        StepTokenizers.StepTokenizerPermutation: lambda x: len(set(x)) == len(x),"),
    ], None, None),
]
# negative controls: behaviour-preserving edits that must NOT raise an alarm
CONTROLS = [
    ("control-wilson-fixed-walk-start", "C19", G, "np.random.choice(unvisited_coords.shape[0])\n            ]", "0\n            ]"),
    ("control-astar-ge-to-gt", "C02", LM, "                elif g_temp >= g_score[neighbor]:", "                elif g_temp > g_score[neighbor] or g_temp == g_score[neighbor]:"),
]


def run_one(m, control=False):
    name, prop, path, old, new = m
    edits = path if isinstance(path, list) else [(path, old, new)]
    wt = tempfile.mkdtemp(prefix=f"mzmut-{name}-", dir="/tmp"); os.rmdir(wt)
    res = {"name": name, "property": prop, "file": ", ".join(e[0] for e in edits), "control": control}
    try:
        subprocess.run(f"git -C /repo worktree add -q --detach {wt} HEAD", shell=True, check=True, capture_output=True)
        for path_, old_, new_ in edits:
            fp = os.path.join(wt, path_)
            src = open(fp).read()
            if src.count(old_) != 1:
                res["error"] = f"pattern occurs {src.count(old_)} times in {path_}"
                return res
            open(fp, "w").write(src.replace(old_, new_))
        c = subprocess.run([sys.executable, "-c", "import maze_dataset.dataset.rasterized, maze_dataset.plotting, maze_dataset.tokenization"], env={**os.environ, "PYTHONPATH": wt}, capture_output=True, text=True)
        if c.returncode != 0:
            res["error"] = "does not import: " + c.stderr[-200:]
            return res
        t = time.time()
        p = subprocess.run(f"./check {prop} --tier quick", shell=True, cwd="/verif", env={**os.environ, "VERIF_REPO": wt, "VERIF_TIMEOUT": "900"}, capture_output=True, text=True)
        res["exit"] = p.returncode
        res["seconds"] = round(time.time() - t, 1)
        res["signatures"] = sorted({l.split("=", 1)[1].strip() for l in p.stdout.splitlines() if l.strip().startswith("signature=")})[:4]
        if p.returncode == 2:
            res["tail"] = p.stdout[-300:]
    finally:
        subprocess.run(f"git -C /repo worktree remove --force {wt}", shell=True, capture_output=True)
        shutil.rmtree(wt, ignore_errors=True)
    return res


if __name__ == "__main__":
    sel = sys.argv[1:]
    todo = [(m, False) for m in MUTANTS] + [(m, True) for m in CONTROLS]
    if sel:
        todo = [(m, c) for m, c in todo if any(s in m[0] or s == m[1] for s in sel)]
    with ThreadPoolExecutor(max_workers=int(os.environ.get("MUT_JOBS", "3"))) as ex:
        out = list(ex.map(lambda mc: run_one(*mc), todo))
    for r in out:
        print(json.dumps(r))
    path = "/verif/sensitivity.json"
    prev = {}
    if os.path.exists(path):
        prev = {r["name"]: r for r in json.load(open(path))}
    for r in out:
        prev[r["name"]] = r
    json.dump(sorted(prev.values(), key=lambda r: (r["property"], r["name"])), open(path, "w"), indent=1)
