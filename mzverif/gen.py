"""Hypothesis strategies and exhaustive enumerators. Every strategy yields plain JSON-able data."""

from __future__ import annotations

import itertools

from hypothesis import strategies as st

from mzverif import model as M


# ----------------------------------------------------------------------------------------------
# shapes
# ----------------------------------------------------------------------------------------------


def shapes(lo: int = 1, hi: int = 8, square: bool = False):
    """(r, c); roughly uniform over sizes (sampled_from, not integers(), to avoid Hypothesis' bias towards tiny values)"""
    sizes = list(range(lo, hi + 1))
    big = [n for n in sizes if n >= 2] or sizes
    sq = st.sampled_from(big).map(lambda n: (n, n))
    if square:
        return st.one_of(sq, sq, sq, st.sampled_from(sizes).map(lambda n: (n, n)))
    ob = st.tuples(st.sampled_from(big), st.sampled_from(big))
    thin = st.one_of(
        st.sampled_from(sizes).map(lambda n: (1, n)), st.sampled_from(sizes).map(lambda n: (n, 1))
    ) if lo <= 1 else ob
    return st.one_of(sq, sq, ob, ob, ob, thin)


def medium_shapes():
    """further shapes whose graphs can still be enumerated completely (thorough tiers): <= 13 lattice edges"""
    return [(1, 4), (4, 1), (1, 5), (5, 1), (2, 4), (4, 2), (2, 5), (5, 2)]


def small_shapes(maxcells_bits: int = 12):
    """all shapes (r,c), r,c>=1, with at most `maxcells_bits` lattice edges... used for exhaustive runs"""
    out = []
    for r in range(1, 4):
        for c in range(1, 4):
            out.append((r, c))
    return out


# ----------------------------------------------------------------------------------------------
# graphs
# ----------------------------------------------------------------------------------------------


def all_graphs(r: int, c: int):
    """every connection structure on r x c with boundary bits clear"""
    E = M.lattice_edges(r, c)
    idx = [M.edge_bit(r, c, u, v) for u, v in E]
    for mask in range(1 << len(E)):
        bits = [0] * (2 * r * c)
        for k, bi in enumerate(idx):
            if (mask >> k) & 1:
                bits[bi] = 1
        yield {"r": r, "c": c, "cl": "".join(map(str, bits))}


def n_graphs(r: int, c: int) -> int:
    return 1 << len(M.lattice_edges(r, c))


@st.composite
def _arbitrary_graph(draw, r, c):
    E = M.lattice_edges(r, c)
    p = draw(st.sampled_from([0.15, 0.3, 0.5, 0.7, 0.9]))
    bits = [0] * (2 * r * c)
    picks = draw(st.lists(st.floats(0, 1, allow_nan=False), min_size=len(E), max_size=len(E)))
    for (u, v), x in zip(E, picks):
        if x < p:
            bits[M.edge_bit(r, c, u, v)] = 1
    return M.g_make(r, c, bits)


@st.composite
def _tree_plus(draw, r, c, max_extra=None, forest_drop=0):
    """uniform-ish spanning tree via Kruskal over a drawn permutation, plus extra edges, minus dropped edges"""
    E = M.lattice_edges(r, c)
    n = r * c
    if not E:
        return M.g_make(r, c, [0] * (2 * r * c))
    perm = draw(st.permutations(range(len(E))))
    parent = list(range(n))

    def find(x):
        while parent[x] != x:
            parent[x] = parent[parent[x]]
            x = parent[x]
        return x

    tree, rest = [], []
    for k in perm:
        (i, j), (p, q) = E[k]
        a, b = find(i * c + j), find(p * c + q)
        if a != b:
            parent[a] = b
            tree.append(k)
        else:
            rest.append(k)
    if max_extra is None:
        max_extra = len(rest)
    n_extra = draw(st.integers(0, min(max_extra, len(rest))))
    chosen = tree + rest[:n_extra]
    if forest_drop:
        n_drop = draw(st.integers(0, min(forest_drop, len(tree))))
        chosen = tree[n_drop:] + rest[:n_extra]
    bits = [0] * (2 * r * c)
    for k in chosen:
        u, v = E[k]
        bits[M.edge_bit(r, c, u, v)] = 1
    return M.g_make(r, c, bits)


def graphs(r: int, c: int):
    """mixture: arbitrary bit vectors, spanning trees (+extra edges), forests with isolated cells, empty, full"""
    E = M.lattice_edges(r, c)
    full = [0] * (2 * r * c)
    for u, v in E:
        full[M.edge_bit(r, c, u, v)] = 1
    return st.one_of(
        _arbitrary_graph(r, c),
        _tree_plus(r, c, max_extra=0),
        _tree_plus(r, c, max_extra=max(1, len(E) // 4)),
        _tree_plus(r, c, max_extra=2, forest_drop=max(1, (r * c) // 3)),
        st.just(M.g_make(r, c, [0] * (2 * r * c))),
        st.just(M.g_make(r, c, full)),
    )


def connected_graphs(r: int, c: int):
    E = M.lattice_edges(r, c)
    return st.one_of(
        _tree_plus(r, c, max_extra=0),
        _tree_plus(r, c, max_extra=max(1, len(E) // 4)),
        _tree_plus(r, c, max_extra=None),
    )


@st.composite
def shaped_graphs(draw, lo=1, hi=8, square=False, connected=False):
    r, c = draw(shapes(lo, hi, square))
    return draw(connected_graphs(r, c) if connected else graphs(r, c))


def cell_in(r: int, c: int):
    return st.tuples(st.integers(0, r - 1), st.integers(0, c - 1)).map(list)


@st.composite
def graph_with_pair(draw, lo=1, hi=8, square=False, same_component_bias=True):
    g = draw(shaped_graphs(lo, hi, square))
    r, c = g["r"], g["c"]
    s = draw(cell_in(r, c))
    mode = draw(st.sampled_from(["far", "far", "comp", "any", "any", "self"])) if same_component_bias else "any"
    if mode == "self":
        e = list(s)
    elif mode in ("far", "comp"):
        dist = M.bfs(M.adj(g), tuple(s))
        comp = sorted(dist)
        if mode == "far":
            mx = max(dist.values())
            comp = [u for u in comp if dist[u] >= min(3, mx)]
        e = list(draw(st.sampled_from(comp)))
    else:
        e = draw(cell_in(r, c))
    return {"g": g, "s": s, "e": e}


@st.composite
def solved_case(draw, lo=2, hi=6, square=True, connected=None, min_len=1, allow_nonshortest=False):
    """graph + endpoints in one component + one of the model's shortest paths"""
    if connected is None:
        connected = draw(st.booleans())
    g = draw(shaped_graphs(lo, hi, square, connected=connected))
    a = M.adj(g)
    r, c = g["r"], g["c"]
    s = tuple(draw(cell_in(r, c)))
    dist = M.bfs(a, s)
    comp = sorted(dist, key=lambda u: (-dist[u], u))  # farthest first: Hypothesis prefers early elements
    mx = dist[comp[0]]
    mode = draw(st.sampled_from(["far", "far", "far", "any", "any", "len1", "len2"]))
    if mode == "len1":
        cands = [s]
    elif mode == "len2":
        cands = [u for u in comp if dist[u] == 1] or [s]
    elif mode == "far":
        cands = [u for u in comp if dist[u] >= (mx + 1) // 2]
    else:
        cands = comp
    cands = [u for u in cands if dist[u] + 1 >= min_len] or [comp[0]]
    e = draw(st.sampled_from(cands))
    paths = M.all_shortest_paths(a, s, e, cap=4)
    p = draw(st.sampled_from(paths))
    return {"g": g, "sol": [list(q) for q in p]}


# ----------------------------------------------------------------------------------------------
# generator calls
# ----------------------------------------------------------------------------------------------

GENERATORS = ["gen_dfs", "gen_prim", "gen_wilson", "gen_percolation", "gen_dfs_percolation"]


def _opt(s):
    return st.one_of(st.none(), s)


@st.composite
def gen_kwargs(draw, name: str, r: int, c: int, defaults_only: bool = False, solvable: bool = False):
    """accepted keyword arguments of each generator, read off the signatures/docstrings.

    `solvable=True` keeps to arguments that leave a component of >= 2 cells around the start (needed to draw endpoints)"""
    if defaults_only or name == "gen_wilson":
        return {}
    rc = r * c
    kw: dict = {}
    frac = st.sampled_from([0.0, 0.1, 0.25, 0.5, 0.75, 0.9, 1.0]) | st.floats(0, 1, allow_nan=False)
    pvals = st.sampled_from([0.0, 1.0, 0.1, 0.3, 0.4, 0.5, 0.7, 0.9]) | st.floats(0, 1, allow_nan=False)
    if solvable:
        lo = min(1.0, 2.0 / rc + 1e-9)
        frac = st.sampled_from([x for x in [0.25, 0.5, 0.75, 0.9, 1.0] if x >= lo] or [1.0]) | st.floats(lo, 1, allow_nan=False)
        pvals = st.sampled_from([1.0, 0.5, 0.7, 0.9]) | st.floats(0.5, 1, allow_nan=False)
        cnt = st.integers(2, rc + 3)
        depth = st.integers(2, 2 * rc + 2)
        if name in ("gen_dfs", "gen_prim"):
            if draw(st.booleans()):
                kw["accessible_cells"] = draw(cnt | frac)
            if draw(st.booleans()):
                kw["max_tree_depth"] = draw(depth | st.just(1.0))
            if draw(st.booleans()):
                kw["do_forks"] = draw(st.booleans())
            if name == "gen_dfs" and draw(st.booleans()):
                kw["randomized_stack"] = draw(st.booleans())
        elif name == "gen_percolation":
            kw["p"] = draw(pvals)
        elif name == "gen_dfs_percolation":
            if draw(st.booleans()):
                kw["p"] = draw(st.sampled_from([0.0, 0.1, 0.4, 1.0]) | st.floats(0, 1, allow_nan=False))
            if draw(st.booleans()):
                kw["accessible_cells"] = draw(cnt)
            if draw(st.booleans()):
                kw["max_tree_depth"] = draw(depth)
        if name != "gen_wilson" and draw(st.booleans()):
            kw["start_coord"] = [draw(st.integers(0, r - 1)), draw(st.integers(0, c - 1))]
        return kw
    startc = st.tuples(st.integers(0, r - 1), st.integers(0, c - 1)).map(list)
    if name in ("gen_dfs", "gen_prim"):
        if draw(st.booleans()):
            kw["accessible_cells"] = draw(st.integers(0, rc + 3) | frac)
        if draw(st.booleans()):
            kw["max_tree_depth"] = draw(st.integers(0, 2 * rc + 2) | frac)
        if draw(st.booleans()):
            kw["do_forks"] = draw(st.booleans())
        if name == "gen_dfs" and draw(st.booleans()):
            kw["randomized_stack"] = draw(st.booleans())
        if draw(st.booleans()):
            kw["start_coord"] = draw(startc)
    elif name == "gen_percolation":
        if draw(st.booleans()):
            kw["p"] = draw(pvals)
        if draw(st.booleans()):
            kw["start_coord"] = draw(startc)
    elif name == "gen_dfs_percolation":
        if draw(st.booleans()):
            kw["p"] = draw(pvals)
        if draw(st.booleans()):
            kw["accessible_cells"] = draw(st.integers(0, rc + 3))
        if draw(st.booleans()):
            kw["max_tree_depth"] = draw(st.integers(0, 2 * rc + 2))
        if draw(st.booleans()):
            kw["start_coord"] = draw(startc)
    return kw


def _spelled(draw, name: str, kw: dict) -> dict:
    """the same arguments as a caller might spell them: keys in another order, defaults written out as None"""
    kw = dict(kw)
    if name in ("gen_dfs", "gen_prim", "gen_dfs_percolation") and draw(st.integers(0, 3)) == 0:
        for k in ("accessible_cells", "max_tree_depth", "start_coord"):
            if k not in kw and draw(st.booleans()):
                kw[k] = None
    elif name == "gen_percolation" and "start_coord" not in kw and draw(st.integers(0, 3)) == 0:
        kw["start_coord"] = None
    keys = draw(st.permutations(sorted(kw)))
    return {k: kw[k] for k in keys}


@st.composite
def generator_call(draw, lo=1, hi=12, square=False, names=None, defaults_only=False):
    name = draw(st.sampled_from(names or GENERATORS))
    r, c = draw(shapes(lo, hi, square))
    kw = draw(gen_kwargs(name, r, c, defaults_only))
    if not defaults_only:
        kw = _spelled(draw, name, kw)
    out = {
        "gen": name,
        "r": r,
        "c": c,
        "kw": kw,
        "np_seed": draw(st.integers(0, 2**32 - 1)),
        "py_seed": draw(st.integers(0, 2**32 - 1)),
    }
    # the container the grid shape arrives in: MazeDataset.generate passes an int64 array; the Coord annotation is int8; direct callers
    # also pass int16/int32 arrays and (for every generator but Wilson, which does array arithmetic on it) tuples or lists
    forms = ["int64", "int64", "int8", "int8", "int16", "int32"] + ([] if name == "gen_wilson" else ["tuple", "list"])
    form = draw(st.sampled_from(forms))
    if form != "int64":
        out["shape_form"] = form
    return out


def product_cases(*iterables):
    return itertools.product(*iterables)


# ----------------------------------------------------------------------------------------------
# dataset configurations (JSON specs, see lib.make_cfg)
# ----------------------------------------------------------------------------------------------

FILTER_SPECS = [
    lambda d: {"name": "path_length", "args": [], "kwargs": {"min_length": d(st.integers(0, 6))}},
    lambda d: {"name": "path_length", "args": [d(st.integers(0, 6))], "kwargs": {}},
    lambda d: {"name": "start_end_distance", "args": [], "kwargs": {"min_distance": d(st.integers(0, 5))}},
    lambda d: {"name": "cut_percentile_shortest", "args": [], "kwargs": {"percentile": d(st.sampled_from([0.0, 10.0, 25.0, 50.0, 90.0]))}},
    lambda d: {"name": "truncate_count", "args": [], "kwargs": {"max_count": d(st.integers(0, 12))}},
    lambda d: {"name": "truncate_count", "args": [d(st.integers(0, 12))], "kwargs": {}},
    lambda d: {"name": "remove_duplicates", "args": [], "kwargs": {}},
    lambda d: {"name": "remove_duplicates", "args": [], "kwargs": d(st.sampled_from([
        {"minimum_difference_connection_list": None, "minimum_difference_solution": 1},
        {"minimum_difference_connection_list": 1, "minimum_difference_solution": None},
        {"minimum_difference_connection_list": None, "minimum_difference_solution": None}]))},
    lambda d: {"name": "remove_duplicates", "args": [], "kwargs": {"minimum_difference_connection_list": None, "minimum_difference_solution": d(st.sampled_from([None, 0, 1, 2]))}},
    lambda d: {"name": "remove_duplicates_fast", "args": [], "kwargs": {}},
    lambda d: {"name": "strip_generation_meta", "args": [], "kwargs": {}},
    lambda d: {"name": "collect_generation_meta", "args": [], "kwargs": {}},
]


@st.composite
def filter_list(draw, max_size=3, allow=None):
    n = draw(st.integers(0, max_size))
    out = []
    for _ in range(n):
        mk = draw(st.sampled_from(FILTER_SPECS))
        f = mk(draw)
        if allow is not None and f["name"] not in allow:
            continue
        out.append(f)
        if draw(st.integers(0, 3)) == 0:
            # the same filter recorded twice in a row (not every filter is idempotent)
            out.append({"name": f["name"], "args": list(f["args"]), "kwargs": dict(f["kwargs"])})
    return out


@st.composite
def endpoint_kwargs(draw, n: int, satisfiable_bias: bool = True):
    """endpoint options; coordinate lists are lists of [r,c] (turned into tuples by lib.make_cfg)"""
    ep: dict = {}
    cells = [[i, j] for i in range(n) for j in range(n)]
    big = st.lists(st.sampled_from(cells), min_size=max(1, (n * n) // 2), max_size=n * n, unique_by=tuple)
    small = st.lists(st.sampled_from(cells), min_size=1, max_size=3, unique_by=tuple)
    pick = big if satisfiable_bias else st.one_of(big, small)
    if draw(st.booleans()):
        ep["allowed_start"] = draw(pick)
    if draw(st.booleans()):
        ep["allowed_end"] = draw(pick)
    if draw(st.booleans()):
        ep["deadend_start"] = draw(st.booleans())
    if draw(st.booleans()):
        ep["deadend_end"] = draw(st.booleans())
    if draw(st.booleans()):
        ep["endpoints_not_equal"] = draw(st.booleans())
    if draw(st.integers(0, 3)) == 0:
        ep["except_when_invalid"] = True  # the remaining option of the endpoint-drawing step, spelled out with its default value
    # the order in which a caller happens to write the options is part of the input (a config hashes its serialized form)
    keys = draw(st.permutations(sorted(ep)))
    return {k: ep[k] for k in keys}


@st.composite
def dataset_spec(draw, n_lo=2, n_hi=6, mazes_lo=0, mazes_hi=8, ctors=None, with_filters=True, with_endpoint=True,
                 names=None, satisfiable_bias=True, filter_allow=None):
    ctor = draw(st.sampled_from(ctors or GENERATORS))
    n = draw(st.sampled_from(list(range(n_lo, n_hi + 1))))
    spec = {
        "name": draw(names or st.sampled_from(["cfg", "test", "a-b_c", "x1"])),
        "grid_n": n,
        "n_mazes": draw(st.integers(mazes_lo, mazes_hi)),
        "ctor": ctor,
        "kwargs": _spelled(draw, ctor, draw(gen_kwargs(ctor, n, n, solvable=satisfiable_bias))) if draw(st.booleans()) else {},
        "seed": draw(st.sampled_from([42, 0, 1, 7, 123456, 2**31 - 1]) | st.integers(0, 2**31 - 1)),
    }
    if with_endpoint and draw(st.booleans()):
        spec["endpoint"] = draw(endpoint_kwargs(n, satisfiable_bias))
    if with_filters and draw(st.booleans()):
        spec["filters"] = draw(filter_list(allow=filter_allow))
    if draw(st.integers(0, 3)) == 3:
        # how the caller arrived at the configuration object: built, looked at, then edited in place to this content (lib.make_cfg)
        spec["built"] = {"use": draw(st.integers(1, 15)), "scalars": draw(st.booleans())}
    return spec


# ----------------------------------------------------------------------------------------------
# large grids with narrow coordinate storage
# ----------------------------------------------------------------------------------------------


@st.composite
def big_int8_case(draw, sizes=(127, 65, 100, 64, 40, 33, 63), shortest=True):
    """a maze on a grid large enough for int8 coordinate arithmetic to matter (2*c+1, c1+c2, unit*c beyond 127): a serpentine corridor
    plus drawn extra connections; the solution is one of the model's shortest paths between two far cells (or, with shortest=False,
    possibly the corridor itself - the long way round). The case asks for int8 coordinate storage, the dtype the library's
    minimal-format loader produces."""
    n = draw(st.sampled_from(list(sizes)))
    order = []
    for i in range(n):
        cols = range(n) if i % 2 == 0 else range(n - 1, -1, -1)
        order += [(i, j) for j in cols]
    bits = [0] * (2 * n * n)
    for u, v in zip(order[:-1], order[1:]):
        bits[M.edge_bit(n, n, u, v)] = 1
    for _ in range(draw(st.integers(0, 12))):
        i, j = draw(st.integers(0, n - 2)), draw(st.integers(0, n - 1))
        bits[M.edge_bit(n, n, (i, j), (i + 1, j))] = 1
    g = M.g_make(n, n, bits)
    a = M.adj(g)
    # both endpoints in a band of six rows (solutions of at most a few hundred cells), usually the band with the largest coordinates
    top = draw(st.sampled_from([n - 6, n - 6, n - 6, (n - 6) // 2, 0]))
    lo_cell = (top + draw(st.integers(0, 1)), draw(st.integers(0, n - 1)))
    hi_cell = (top + draw(st.integers(3, 5)), draw(st.integers(0, n - 1)))
    s, e = (lo_cell, hi_cell) if draw(st.booleans()) else (hi_cell, lo_cell)
    if not shortest and draw(st.booleans()):
        k0, k1 = order.index(s), order.index(e)
        sol = order[k0 : k1 + 1] if k0 <= k1 else order[k1 : k0 + 1][::-1]
    else:
        sol = M.shortest_path(a, s, e)
    return {"g": g, "sol": [list(q) for q in sol], "dtype": "int8"}
