"""C09 - maze objects are values: total structural equality, consistent hash, valid ends."""

from __future__ import annotations

import numpy as np
from hypothesis import strategies as st

from mzverif import core
from mzverif import gen as G
from mzverif import lib as L
from mzverif import model as M
from mzverif.core import Failure, Stats, Sub, Violation, call, require

ID = "C09"
LEVEL = "exploration"
TECHNIQUE = "metamorphic pairs (copy / single-bit / single-cell / kind / shape / dtype / metadata mutations) compared with a structural-equality oracle; exhaustive endpoint-coordinate grid for constructor bounds (random ones also after earlier operations that failed: damaged loads, rejected constructions / drawings / token streams); mazes hashed in other interpreters and shipped here; Hypothesis dataset pairs; dataset pairs differing in one flag / one interior solution cell / one endpoint / walking direction; the same check on several cases at once, one thread each (interleavings sampled)"
RULE = (
    "pairs: case = (graph, solution, kind of a, mutation producing b); exhaustive single mutations on all 2x2 graphs plus Hypothesis "
    "up to 6x6 (8x8 thorough). bounds: every (start,end) with coordinates in -2..n+1 on every shape <= 3x3 for targeted and solved "
    "mazes. datasets: pairs of datasets equal / differing in one maze / length / config. Non-trivial = pair differing in exactly one "
    "bit/cell/field or equal copies backed by distinct arrays; bounds: at least one coordinate outside the grid."
)
ASSUMPTIONS = [
    "structural equality = same class and np.array_equal of connection list, start, end, solution; generation_meta ignored",
    "equal copies may carry different integer dtypes for coordinates (the library's own minimal loader produces int8 solutions)",
    "dataset configuration equality is the library's own config ==; the harness only varies name/seed (unambiguously different) or nothing",
]

KINDS = ["lattice", "targeted", "solved"]


def _build(kind, g, sol, dtype="int64", meta=None, form="array"):
    """`form`: the container the coordinates arrive in (array of the given dtype, tuple(s), list(s)) - not part of a maze's value"""
    cl = M.g_cl(g)
    from maze_dataset.maze.lattice_maze import LatticeMaze, SolvedMaze, TargetedLatticeMaze

    def co(x):
        if form == "tuple":
            return tuple(int(v) for v in x)
        if form == "list":
            return [int(v) for v in x]
        return np.array(x, dtype=dtype)

    if form == "fortran" and kind != "solved":
        cl = np.asfortranarray(cl)
    if kind == "lattice":
        return LatticeMaze(connection_list=cl, generation_meta=meta)
    if kind == "targeted":
        return TargetedLatticeMaze(connection_list=cl, start_pos=co(sol[0]), end_pos=co(sol[-1]), generation_meta=meta)
    if form == "fortran":
        return SolvedMaze(connection_list=np.asfortranarray(cl), solution=np.array([[q[0] for q in sol], [q[1] for q in sol]], dtype=dtype).T, generation_meta=meta)
    solution = np.array(sol, dtype=dtype) if form == "array" else ([co(q) for q in sol] if form == "list" else tuple(co(q) for q in sol))
    return SolvedMaze(connection_list=cl, solution=solution, generation_meta=meta)


def _struct(kind, g, sol):
    """what structural equality looks at"""
    if kind == "lattice":
        return (kind, g["r"], g["c"], g["cl"])
    if kind == "targeted":
        return (kind, g["r"], g["c"], g["cl"], tuple(sol[0]), tuple(sol[-1]))
    return (kind, g["r"], g["c"], g["cl"], tuple(map(tuple, sol)))


def check_pair(case: dict):
    g, sol, ka, mut = case["g"], case["sol"], case["kind"], case["mut"]
    gb, solb, kb = g, sol, ka
    dtype_b, meta_b = "int64", None
    op = mut["op"]
    same_obj = False
    if op == "same":
        same_obj = True
    elif op == "copy":
        pass
    elif op == "flip":
        bits = list(g["cl"])
        k = mut["k"] % len(bits)
        bits[k] = "0" if bits[k] == "1" else "1"
        gb = {"r": g["r"], "c": g["c"], "cl": "".join(bits)}
    elif op == "sol":
        solb = [list(q) for q in mut["sol"]]
    elif op == "kind":
        kb = mut["kind"]
    elif op == "shape":
        gb = mut["g"]
        solb = mut.get("sol", sol)
    elif op == "meta":
        meta_b = {"func_name": "x", "visited_cells": {(0, 0)}, "grid_shape": np.array([g["r"], g["c"]])}
    elif op == "dtype":
        dtype_b = mut["dtype"]
    else:
        raise ValueError(op)
    a = call(f"C09:{ka}:construct-valid", _build, ka, g, sol)
    form_b = ("array", "array", "tuple", "list", "fortran")[core.digest(case) % 5]
    b = a if same_obj else call(f"C09:{kb}:construct-valid", _build, kb, gb, solb, dtype=dtype_b, meta=meta_b, form=form_b)
    want = _struct(ka, g, sol) == _struct(kb, gb, solb)
    sig = f"C09:{ka}" if ka == kb else f"C09:{ka}-vs-{kb}"
    for nm, fn, exp in (("eq", lambda: a == b, want), ("eq-rev", lambda: b == a, want), ("ne", lambda: a != b, not want)):
        try:
            res = fn()
        except Exception as ex:  # noqa: BLE001
            raise Violation(f"{sig}:{nm}-raises:{type(ex).__name__}", f"op={op}: {type(ex).__name__}: {str(ex)[:150]}")
        require(isinstance(res, (bool, np.bool_)), f"{sig}:{nm}-not-bool", f"op={op}: returned {type(res)}")
        require(bool(res) == exp, f"{sig}:{nm}-wrong", f"op={op}: got {bool(res)}, structural comparison says {exp}; a={_struct(ka, g, sol)} b={_struct(kb, gb, solb)}")
    try:
        ha, hb = hash(a), hash(b)
    except Exception as ex:  # noqa: BLE001
        raise Violation(f"{sig}:hash-raises:{type(ex).__name__}", f"{type(ex).__name__}: {str(ex)[:150]}")
    if want:
        require(ha == hb, f"{sig}:equal-but-hash-differs", f"op={op} dtype_b={dtype_b}: hashes {ha} != {hb}")
    s = call(f"{sig}:set", lambda: {a, b})
    require(len(s) == (1 if want else 2), f"{sig}:set-dedup", f"op={op}: set of the pair has {len(s)} elements, expected {1 if want else 2}")
    d = call(f"{sig}:dict", lambda: list(dict.fromkeys([a, b, a, b])))
    require(len(d) == (1 if want else 2) and d[0] is a and (want or d[1] is b), f"{sig}:dict-dedup", f"op={op}: dict.fromkeys kept {len(d)} keys")
    nt = op in ("flip", "sol", "copy", "dtype", "kind", "meta")
    return {"nt": nt, "labels": [f"op:{op}", f"kind:{ka}", "equal" if want else "different"]}


_PICKLE_CODE = r"""
import sys, json, base64, pickle, warnings
warnings.filterwarnings("ignore")
sys.path.insert(0, {verif!r})
from mzverif.props import C09
req = json.load(sys.stdin)
out = []
for it in req:
    m = C09._build(it["kind"], it["g"], it["sol"])
    h = hash(m); _ = (m == m); len({{m}})          # use the object the way a de-duplication would before it is shipped
    out.append(base64.b64encode(pickle.dumps(m)).decode())
print("RESULT" + json.dumps(out))
"""


def check_shipped(case: dict):
    """mazes that were hashed / compared in ANOTHER interpreter (its own hash seed) and arrive here pickled, and pickled copies made in
    this process: they must be equal to a locally built maze with the same content, have the same hash and de-duplicate with it"""
    import base64
    import json
    import pickle

    items = case["items"]
    out = core.run_python(_PICKLE_CODE.format(verif=core.VERIF_DIR), {"PYTHONHASHSEED": str(case["hashseed"])}, stdin=json.dumps(items))
    blobs = json.loads(next(ln for ln in out.splitlines() if ln.startswith("RESULT"))[len("RESULT"):])
    for it, blob in zip(items, blobs):
        local = _build(it["kind"], it["g"], it["sol"])
        hash(local)
        arrived = pickle.loads(base64.b64decode(blob))
        for nm, other in (("unpickled-from-other-process", arrived), ("pickle-round-trip", pickle.loads(pickle.dumps(local)))):
            sig = f"C09:{it['kind']}:{nm}"
            try:
                eq, h1, h2 = (other == local), hash(other), hash(local)
            except Exception as ex:  # noqa: BLE001
                raise Violation(f"{sig}:raises:{type(ex).__name__}", str(ex)[:200])
            require(bool(eq), f"{sig}:not-equal", "a shipped / copied maze is not equal to a locally built maze with the same content")
            require(h1 == h2, f"{sig}:equal-but-hash-differs", f"equal mazes hash differently ({h1} vs {h2})")
            require(len({other, local}) == 1, f"{sig}:set-dedup", "set keeps both")
    return {"nt": True, "labels": ["shipped"]}


def _shipped_run(n_items: int):
    def run(seed_val: int):
        stats, fails = Stats(), []
        cases = core.collect_examples(G.solved_case(lo=2, hi=5, square=False), n_items, seed_val)
        for k, hs in enumerate(("1", "4242", "random")):
            items = [{"kind": KINDS[(j + k) % 3], "g": c["g"], "sol": c["sol"]} for j, c in enumerate(cases)]
            case = {"items": items, "hashseed": hs}
            try:
                info = check_shipped(case)
                stats.record(case, info)
                stats.evaluations += len(items) - 1
            except Violation as v:
                fails.append(Failure("shipped-between-processes", v.sig, v.msg, {"items": items[:3], "hashseed": hs}))
        return stats, fails

    return run


def _earlier_use(what: str, k: int) -> None:
    """something the process did before the construction under test - in particular operations that *failed* (a damaged file that
    would not load, a drawing that would not parse, a rejected construction): whatever they left behind, 'can never hold' still holds"""
    from maze_dataset import MazeDataset, MazeDatasetConfig
    from maze_dataset.maze.lattice_maze import LatticeMaze, SolvedMaze, TargetedLatticeMaze

    g = M.g_make(3, 3, [1] * 18)
    sols = [[[0, 0], [0, 1], [0, 2]], [[2, 2], [1, 2]], [[1, 1], [1, 0], [0, 0], [0, 1]]]
    try:
        if what.startswith("load"):
            _, fmt, damage = what.split(":")
            ds = MazeDataset(MazeDatasetConfig(name="earlier", grid_n=3, n_mazes=len(sols)), [L.solved(g, so) for so in sols])
            ser = {"full": ds._serialize_full, "minimal": ds._serialize_minimal, "soln_cat": ds._serialize_minimal_soln_cat}[fmt]()
            if damage != "none":
                keys = sorted(kk for kk, v in ser.items() if isinstance(v, np.ndarray) and v.dtype.kind in "iu" and v.size)
                if keys:
                    kk = keys[k % len(keys)]
                    arr = np.array(ser[kk])
                    if damage == "coordinate":
                        arr.flat[k % arr.size] = 99
                    elif damage == "negative":
                        arr.flat[k % arr.size] = -3
                    else:
                        arr = arr[: max(0, len(arr) - 1)]
                    ser[kk] = arr
                elif fmt == "full" and ser.get("mazes"):
                    ser["mazes"] = list(ser["mazes"])
                    ser["mazes"][0] = {**ser["mazes"][0], "solution": [[0, 0], [7, 7]]} if isinstance(ser["mazes"][0], dict) else ser["mazes"][0]
            MazeDataset.load(ser)
        elif what == "construct-rejected":
            SolvedMaze(connection_list=M.g_cl(g), solution=np.array([[0, 0], [5, 5]]))
        elif what == "targeted-rejected":
            TargetedLatticeMaze(connection_list=M.g_cl(g), start_pos=np.array([-1, 0]), end_pos=np.array([0, 0]))
        elif what == "drawing-rejected":
            SolvedMaze.from_ascii("###\n#S#\n###")
        elif what == "tokens-rejected":
            from maze_dataset.tokenization import MazeTokenizer, TokenizationMode

            SolvedMaze.from_tokens("<ADJLIST_START> (0,0) <--> (0,1) ; <ADJLIST_END> <PATH_START> (0,0) <PATH_END>".split(), MazeTokenizer(tokenization_mode=TokenizationMode.AOTP_UT_uniform))
        elif what == "path-query-rejected":
            LatticeMaze(connection_list=np.zeros((2, 3, 3), dtype=bool)).find_shortest_path((0, 0), (2, 2))
    except Exception:  # noqa: BLE001 - failing is the point (and no listed property is judged here)
        pass


def check_bounds(case: dict):
    r, c = case["r"], case["c"]
    for k, what in enumerate(case.get("earlier", [])):
        _earlier_use(what, core.digest(case) + k)
    s, e, kind = case["s"], case["e"], case["kind"]
    g = M.g_make(r, c, [0] * (2 * r * c))
    inb = all(0 <= p[0] < r and 0 <= p[1] < c for p in (s, e))
    from maze_dataset.maze.lattice_maze import SolvedMaze, TargetedLatticeMaze

    form = ("array", "array", "tuple", "list")[core.digest(case) % 4]
    co = (lambda x: np.array(x)) if form == "array" else ((lambda x: tuple(x)) if form == "tuple" else (lambda x: list(x)))

    def build():
        if kind == "targeted":
            if case.get("via") == "from_lattice_maze":
                return TargetedLatticeMaze.from_lattice_maze(L.lattice(g), co(s), co(e))
            return TargetedLatticeMaze(connection_list=M.g_cl(g), start_pos=co(s), end_pos=co(e))
        if case.get("via") == "allow_invalid":
            # the flag tolerates a solution that is no path; it does not make out-of-grid endpoints acceptable
            return SolvedMaze(connection_list=M.g_cl(g), solution=np.array([s, e]), allow_invalid=True)
        return SolvedMaze(connection_list=M.g_cl(g), solution=np.array([s, e]) if form == "array" else [co(s), co(e)])

    try:
        m = build()
    except ValueError:
        require(not inb, f"C09:{kind}:bounds-rejects-valid", f"{r}x{c}: start={s} end={e} rejected")
        return {"nt": True, "labels": [kind, "rejected"]}
    except Exception as ex:  # noqa: BLE001
        raise Violation(f"C09:{kind}:bounds-raises:{type(ex).__name__}", f"{r}x{c}: start={s} end={e}: {type(ex).__name__}: {str(ex)[:120]}")
    require(inb, f"C09:{kind}:out-of-grid-endpoint-accepted", f"{r}x{c} grid accepted start={s} end={e}")
    require(tuple(int(x) for x in m.start_pos) == tuple(s) and tuple(int(x) for x in m.end_pos) == tuple(e),
            f"C09:{kind}:endpoints-changed", f"holds {m.start_pos},{m.end_pos} for {s},{e}")
    return {"nt": False, "labels": [kind, "accepted"]}


def check_dataset(case: dict):
    from maze_dataset import MazeDataset, MazeDatasetConfig

    def mk(items, name, seed):
        cfg = MazeDatasetConfig(name=name, grid_n=case["n"], n_mazes=len(items), seed=seed)
        return MazeDataset(cfg, [L.solved(it["g"], it["sol"]) for it in items])

    A, B = case["a"], case["b"]
    da = mk(A, "d", 42)
    db = da if case.get("same") else mk(B, case.get("name_b", "d"), case.get("seed_b", 42))
    sa = [_struct("solved", it["g"], it["sol"]) for it in A]
    sb = [_struct("solved", it["g"], it["sol"]) for it in B]
    want = (case.get("same") or (case.get("name_b", "d") == "d" and case.get("seed_b", 42) == 42)) and sa == sb
    for nm, fn, exp in (("eq", lambda: da == db, want), ("ne", lambda: da != db, not want)):
        try:
            res = fn()
        except Exception as ex:  # noqa: BLE001
            raise Violation(f"C09:dataset:{nm}-raises:{type(ex).__name__}", f"{type(ex).__name__}: {str(ex)[:150]}")
        require(bool(res) == bool(exp), f"C09:dataset:{nm}-wrong", f"got {res}, expected {exp}; lens {len(A)},{len(B)} name_b={case.get('name_b')} seed_b={case.get('seed_b')}")
    return {"nt": (not case.get("same")) and len(A) >= 1, "labels": ["equal" if want else "different"]}


# ---------------------------------------------------------------- generators


def _mutations_for(g, sol, kind, exhaustive_bits=True):
    r, c = g["r"], g["c"]
    a = M.adj(g)
    muts = [{"op": "same"}, {"op": "copy"}, {"op": "meta"}, {"op": "dtype", "dtype": "int8"}, {"op": "dtype", "dtype": "int32"}]
    for k in range(len(g["cl"])):
        muts.append({"op": "flip", "k": k})
    for kb in KINDS:
        if kb != kind:
            muts.append({"op": "kind", "kind": kb})
    # one endpoint / one solution cell changed (still in-grid so that construction is legal)
    cells = [(i, j) for i in range(r) for j in range(c)]
    for idx in sorted({0, len(sol) - 1, len(sol) // 2}):
        for q in cells:
            if list(q) != list(sol[idx]):
                s2 = [list(x) for x in sol]
                s2[idx] = list(q)
                muts.append({"op": "sol", "sol": s2})
                break
    muts.append({"op": "sol", "sol": [list(x) for x in sol] + [list(sol[-1])]})  # longer solution, same endpoints
    # different shape with the same number of bits where possible
    if r != c:
        muts.append({"op": "shape", "g": {"r": c, "c": r, "cl": g["cl"]}, "sol": [[0, 0]]})
    muts.append({"op": "shape", "g": M.g_make(r + 1, c, [0] * (2 * (r + 1) * c))})
    # a maze whose connection array has a broadcast-compatible shape and repeats this maze's flags along the stretched axis
    if r == 1 and c >= 1:
        for k in (2, 3):
            rows = [[0] * c for _ in range(k)], [[int(g["cl"][c + jj]) if jj < c - 1 else 0 for jj in range(c)] for _ in range(k)]
            bits = [b for plane in rows for row in plane for b in row]
            muts.append({"op": "shape", "g": M.g_make(k, c, bits), "sol": [[0, 0]]})
    if c == 1 and r >= 1:
        for k in (2, 3):
            down = [[int(g["cl"][ii]) if ii < r - 1 else 0 for _ in range(k)] for ii in range(r)]
            right = [[0] * k for _ in range(r)]
            bits = [b for plane in (down, right) for row in plane for b in row]
            muts.append({"op": "shape", "g": M.g_make(r, k, bits), "sol": [[0, 0]]})
    return muts


def _exhaustive_pairs(shard, nshards):
    k = 0
    for r, c in [(1, 1), (1, 2), (2, 1), (2, 2), (2, 3)]:
        for g in G.all_graphs(r, c):
            a = M.adj(g)
            cells = sorted(a)
            sols = [[list(cells[0])]]
            far = max(M.bfs(a, cells[0]).items(), key=lambda kv: kv[1])[0]
            p = M.shortest_path(a, cells[0], far)
            if len(p) > 1:
                sols.append([list(q) for q in p])
            for sol in sols:
                for kind in KINDS:
                    for mut in _mutations_for(g, sol, kind):
                        k += 1
                        if k % nshards == shard:
                            yield {"g": g, "sol": sol, "kind": kind, "mut": mut}


@st.composite
def _random_pair(draw, hi):
    base = draw(G.solved_case(lo=1, hi=hi, square=False))
    g, sol = base["g"], base["sol"]
    kind = draw(st.sampled_from(KINDS))
    mut = draw(st.sampled_from(_mutations_for(g, sol, kind)))
    return {"g": g, "sol": sol, "kind": kind, "mut": mut}


def _bounds_cases(shard, nshards):
    k = 0
    for r in (1, 2, 3):
        for c in (1, 2, 3):
            rng_r, rng_c = range(-2, r + 2), range(-2, c + 2)
            for s in ((i, j) for i in rng_r for j in rng_c):
                for e in ((i, j) for i in rng_r for j in rng_c):
                    for kind, via in (("targeted", "ctor"), ("targeted", "from_lattice_maze"), ("solved", "ctor"), ("solved", "allow_invalid")):
                        k += 1
                        if k % nshards == shard:
                            yield {"r": r, "c": c, "s": list(s), "e": list(e), "kind": kind, "via": via}


@st.composite
def _bounds_random(draw, hi):
    r, c = draw(G.shapes(1, hi))
    # near the grid, and far outside it at values that alias an in-grid coordinate modulo a power of two (narrow integer storage)
    far = lambda n: st.builds(lambda k, m, sg: sg * m + k, st.integers(0, n - 1), st.sampled_from([128, 256, 512, 1024, 65536, 2**31, 2**32]), st.sampled_from([1, -1]))  # noqa: E731
    co = lambda n: st.one_of(st.integers(-3, n + 2), st.integers(-3, n + 2), far(n), st.sampled_from([127, 128, 255, -128, -129, -255, -256, 32767, 32768]))  # noqa: E731
    case = {"r": r, "c": c, "s": [draw(co(r)), draw(co(c))], "e": [draw(co(r)), draw(co(c))],
            "kind": draw(st.sampled_from(["targeted", "solved"])), "via": draw(st.sampled_from(["ctor", "from_lattice_maze", "allow_invalid"]))}
    if draw(st.integers(0, 2)) == 0:
        loads = [f"load:{f}:{d}" for f in ("minimal", "soln_cat", "full") for d in ("coordinate", "negative", "shorter", "none")]
        case["earlier"] = draw(st.lists(st.sampled_from(loads + ["construct-rejected", "targeted-rejected", "drawing-rejected", "tokens-rejected", "path-query-rejected"]), min_size=1, max_size=3))
    return case


@st.composite
def _dataset_pair(draw):
    n = draw(st.integers(2, 4))
    items = draw(st.lists(G.solved_case(lo=n, hi=n, square=True), min_size=0, max_size=5))
    items = [{"g": it["g"], "sol": it["sol"]} for it in items]
    mode = draw(st.sampled_from(["same", "copy", "one-maze", "length", "name", "seed", "order", "resplit", "resplit",
                                 "near-bit", "near-interior", "near-interior", "near-start", "near-end", "near-reverse"]))
    case = {"n": n, "a": items, "b": [dict(it) for it in items]}
    if mode == "same":
        case["same"] = True
    elif mode == "one-maze" and items:
        k = draw(st.integers(0, len(items) - 1))
        other = draw(G.solved_case(lo=n, hi=n, square=True))
        case["b"][k] = {"g": other["g"], "sol": other["sol"]}
    elif mode == "length":
        other = draw(G.solved_case(lo=n, hi=n, square=True))
        case["b"].append({"g": other["g"], "sol": other["sol"]})
    elif mode == "name":
        case["name_b"] = "e"
    elif mode == "seed":
        case["seed_b"] = 43
    elif mode == "order" and len(items) >= 2:
        case["b"] = list(reversed(case["b"]))
    elif mode.startswith("near-") and items:
        # the two datasets differ in one maze only, and that maze in as little as possible: one connection flag, one interior cell of the
        # solution (same endpoints, same length - another route), one endpoint, or the direction the solution is walked in
        k = draw(st.integers(0, len(items) - 1))
        it = case["b"][k]
        sol = [list(x) for x in it["sol"]]
        cells = [[i, j] for i in range(n) for j in range(n)]
        if mode == "near-bit":
            bits = M.g_bits(it["g"])
            free = [b for b, v in enumerate(M.clear_boundary(n, n, [1] * len(bits))) if v]
            b = draw(st.sampled_from(free))
            bits[b] = 0 if bits[b] else 1
            case["b"][k] = {"g": M.g_make(n, n, bits), "sol": sol}
        elif mode == "near-interior" and len(sol) >= 3:
            idx = draw(st.integers(1, len(sol) - 2))
            sol[idx] = draw(st.sampled_from([q for q in cells if q != sol[idx]]))
            case["b"][k] = {"g": it["g"], "sol": sol}
        elif mode == "near-start":
            sol[0] = draw(st.sampled_from([q for q in cells if q != sol[0]]))
            case["b"][k] = {"g": it["g"], "sol": sol}
        elif mode == "near-end":
            sol[-1] = draw(st.sampled_from([q for q in cells if q != sol[-1]]))
            case["b"][k] = {"g": it["g"], "sol": sol}
        elif mode == "near-reverse":
            case["b"][k] = {"g": it["g"], "sol": sol[::-1]}
    elif mode == "resplit":
        # two mazes on one graph whose solutions, laid end to end, read the same in both datasets but are cut at different places
        base = draw(G.solved_case(lo=n, hi=n, square=True, connected=True, min_len=4))
        p = base["sol"]
        if len(p) >= 4:
            i = draw(st.integers(1, len(p) - 2))
            j = draw(st.integers(1, len(p) - 2).filter(lambda x: x != i))
            case["a"] = items + [{"g": base["g"], "sol": p[:i]}, {"g": base["g"], "sol": p[i:]}]
            case["b"] = [dict(it) for it in items] + [{"g": base["g"], "sol": p[:j]}, {"g": base["g"], "sol": p[j:]}]
    return case


def subs(tier: str):
    q = tier == "quick"
    return [
        Sub("pairs-exhaustive", check_pair, "exhaustive", cases=_exhaustive_pairs, exhaustive_flag=True),
        Sub("pairs-random", check_pair, "hypothesis", strategy=lambda: _random_pair(6 if q else 10), examples=100 if q else 6000),
        Sub("concurrent-threads", core.threaded(check_pair), "hypothesis", strategy=core.threaded_strategy(lambda: _random_pair(5 if q else 8)), examples=10 if q else 300, ambient=False),
        Sub("bounds-exhaustive", check_bounds, "exhaustive", cases=_bounds_cases, exhaustive_flag=True),
        Sub("bounds-random", check_bounds, "hypothesis", strategy=lambda: _bounds_random(6 if q else 12), examples=60 if q else 3000),
        Sub("shipped-between-processes", check_shipped, "custom", run=_shipped_run(12 if q else 60)),
        Sub("datasets", check_dataset, "hypothesis", strategy=_dataset_pair, examples=25 if q else 1500),
    ]
