"""Ambient history: ordinary uses of the library that happen in the same process *before* a case is checked.

Every listed property is a for-all statement that also quantifies (explicitly for C04, implicitly for the others: "every maze",
"every request", "every tokenizer") over what the process did earlier. A case may therefore carry a *prelude*: a short list of
`[op, p]` pairs drawn by Hypothesis (or derived from the case digest in enumerations) that is interpreted here before the check runs.
The operations are legitimate uses with small fixed inputs - including uses that *fail* in the documented way (unsolvable query,
out-of-grid endpoint, damaged serialized data, text that does not parse, unknown token) - so a property-preserving library gives the
same verdict with and without them. What they reach: state left behind by earlier calls (memo tables keyed too coarsely or by object
identity, switches left on by a failed operation, defaults shared between calls, "first use wins" snapshots).

Nothing here asserts anything: an exception from an operation is swallowed (whether that operation behaves is the business of the
property that owns it). Whether a case has a prelude, and which, is a pure function of the case's digest (about one case in six; no extra random draws, so
the generated cases themselves are unchanged); the replay file carries the prelude explicitly.
"""

from __future__ import annotations

import json

import numpy as np

from mzverif import model as M

SHAPES = [(2, 2), (2, 3), (3, 2), (3, 3), (1, 4), (2, 6), (3, 4), (4, 3), (6, 2), (4, 4), (5, 5), (2, 2)]


def _graph(p: int, tree: bool = False) -> dict:
    """a small graph that is a pure function of p (tree=True: a spanning tree by a seeded Kruskal)"""
    r, c = SHAPES[p % len(SHAPES)]
    edges = M.lattice_edges(r, c)
    x = (p * 2654435761 + 12345) & 0xFFFFFFFF
    order = []
    for i in range(len(edges)):
        x = (x * 1103515245 + 12345) & 0x7FFFFFFF
        order.append((x, i))
    order.sort()
    bits = [0] * (2 * r * c)
    if tree:
        parent = {cell: cell for cell in M.cells(M.g_make(r, c, bits))}

        def find(a):
            while parent[a] != a:
                parent[a] = parent[parent[a]]
                a = parent[a]
            return a

        for _, i in order:
            a, b = edges[i]
            ra, rb = find(a), find(b)
            if ra != rb:
                parent[ra] = rb
                bits[M.edge_bit(r, c, a, b)] = 1
    else:
        for k, (_, i) in enumerate(order):
            if k % 3 != (p % 3):
                a, b = edges[i]
                bits[M.edge_bit(r, c, a, b)] = 1
    return M.g_make(r, c, bits)


def _solution(g: dict, p: int):
    a = M.adj(g)
    cells = M.cells(g)
    s = cells[p % len(cells)]
    d = M.bfs(a, s)
    far = max(d, key=lambda q: (d[q], q))
    return M.shortest_path(a, s, far)


def _solved(p: int, tree: bool = True):
    from mzverif import lib

    g = _graph(p, tree=tree)
    return g, lib.solved(g, _solution(g, p))


def op_solve(p):
    from mzverif import lib

    g = _graph(p)
    m = lib.lattice(g, layout="C")
    cells = M.cells(g)
    for k in range(3):
        s, e = cells[(p + k) % len(cells)], cells[(p * 7 + 3 * k) % len(cells)]
        try:
            m.find_shortest_path(s, e)
        except ValueError:
            pass


def op_solve_unsolvable(p):
    from mzverif import lib

    r, c = SHAPES[p % len(SHAPES)]
    m = lib.lattice(M.g_make(r, c, [0] * (2 * r * c)), layout="C")
    m.find_shortest_path((0, 0), (r - 1, c - 1))


def op_bad_endpoint(p):
    from maze_dataset.maze.lattice_maze import SolvedMaze, TargetedLatticeMaze

    g = _graph(p)
    cl = M.g_cl(g)
    bad = [(-1, 0), (0, g["c"]), (g["r"], 0), (0, -2)][p % 4]
    try:
        TargetedLatticeMaze(connection_list=cl, start_pos=np.array(bad), end_pos=np.array((0, 0)))
    except ValueError:
        pass
    SolvedMaze(connection_list=cl, solution=np.array([bad, (0, 0)]), allow_invalid=bool(p & 1))


def op_graph_queries(p):
    from mzverif import lib

    g = _graph(p)
    m = lib.lattice(g, layout="C")
    m.coord_degrees()
    m.get_nodes()
    m.as_adj_list(shuffle_d0=bool(p & 1), shuffle_d1=bool(p & 2))
    m.get_coord_neighbors(np.array((0, 0)))
    m.gen_connected_component_from((0, 0))
    m.nodes_connected(np.array((0, 0)), np.array((0, g["c"] - 1)) if g["c"] > 1 else np.array((1, 0)))
    m.is_valid_path(np.array([(0, 0), (0, 0)]))


def op_eq_hash(p):
    g, m = _solved(p)
    _, m2 = _solved(p + 1)
    hash(m), hash(m2)
    m == m2, m != m2
    {m, m2}
    from mzverif import lib

    t = lib.targeted(g, (0, 0), (g["r"] - 1, g["c"] - 1))
    hash(t), t == m, hash(lib.lattice(g))


def op_render(p):
    g, m = _solved(p)
    img = m.as_pixels()
    type(m).from_pixels(img)
    txt = m.as_ascii()
    type(m).from_ascii(txt)
    m.as_pixels(show_endpoints=True, show_solution=False)
    from mzverif import lib

    lib.lattice(g).as_pixels()


def op_render_garbage(p):
    from maze_dataset.maze.lattice_maze import LatticeMaze, SolvedMaze

    if p & 1:
        SolvedMaze.from_ascii("#####\n# S #\n## ##\n#####" if p & 2 else "###\n#X \n###")
    else:
        img = np.zeros((5, 5, 3), dtype=np.uint8)
        img[1, 1] = (1, 2, 3)
        LatticeMaze.from_pixels(img)


def op_tokenize_modular(p):
    from maze_dataset.tokenization import MazeTokenizerModular, PathTokenizers, PromptSequencers, StepSizes

    _, m = _solved(p)
    tok = MazeTokenizerModular() if p & 1 else MazeTokenizerModular(
        prompt_sequencer=PromptSequencers.AOTP(path_tokenizer=PathTokenizers.StepSequence(step_size=StepSizes.Forks()))
    )
    toks = tok.to_tokens(m)
    tok.encode(toks)
    tok.name, hash(tok)
    m.get_solution_forking_points()


def op_tokenize_legacy(p):
    from maze_dataset.maze.lattice_maze import SolvedMaze
    from maze_dataset.tokenization import MazeTokenizer, TokenizationMode

    _, m = _solved(p)
    mode = [TokenizationMode.AOTP_UT_uniform, TokenizationMode.AOTP_UT_rasterized, TokenizationMode.AOTP_CTT_indexed][p % 3]
    tok = MazeTokenizer(tokenization_mode=mode, max_grid_size=[None, 5, 8, 20][(p // 3) % 4])
    toks = m.as_tokens(tok)
    SolvedMaze.from_tokens(toks if p & 4 else " ".join(toks), tok)
    tok.token_arr, tok.tokenizer_map
    if tok.max_grid_size is not None:
        tok.encode(toks)


def op_parse_garbage(p):
    from maze_dataset.maze.lattice_maze import SolvedMaze
    from maze_dataset.tokenization import MazeTokenizer, MazeTokenizerModular, TokenizationMode

    junk = ["<ADJLIST_START>", "(0,0)", "<-->", "<ADJLIST_END>", "<PATH_START>", "(9,9)"][: 2 + p % 5]
    try:
        SolvedMaze.from_tokens(junk, MazeTokenizer(tokenization_mode=TokenizationMode.AOTP_UT_uniform, max_grid_size=3))
    except Exception:  # noqa: BLE001
        pass
    tok = MazeTokenizerModular()
    try:
        tok.encode(["<NOT_A_TOKEN>", "(0,0)"])
    except Exception:  # noqa: BLE001
        pass
    tok.decode([5000 + p])


def _spec(p: int) -> dict:
    ctor = ["gen_dfs", "gen_wilson", "gen_dfs_percolation", "gen_percolation", "gen_dfs"][p % 5]
    kw = {"p": 0.4} if "percolation" in ctor else ({"do_forks": False} if p % 10 == 4 else {})
    return {"name": f"prelude{p % 3}", "grid_n": 2 + p % 4, "n_mazes": 1 + p % 4, "ctor": ctor, "kwargs": kw, "seed": p}


def op_config(p):
    from maze_dataset import MazeDatasetConfig

    from mzverif import lib

    cfg = lib.make_cfg(_spec(p))
    ser = cfg.serialize()
    MazeDatasetConfig.load(json.loads(json.dumps(ser)))
    cfg.stable_hash_cfg(), cfg.to_fname()


def op_generate(p):
    from maze_dataset import MazeDataset

    from mzverif import lib

    cfg = lib.make_cfg(_spec(p))
    if p & 1:
        MazeDataset.generate(cfg, gen_parallel=False)
    else:
        MazeDataset.from_config(cfg, load_local=False, save_local=False, do_download=False, gen_parallel=False)


def _small_dataset(p: int):
    from maze_dataset import MazeDataset

    from mzverif import lib

    spec = dict(_spec(p), ctor="gen_dfs", kwargs={}, grid_n=3)
    return MazeDataset.generate(lib.make_cfg(spec), gen_parallel=False)


def op_filters(p):
    ds = _small_dataset(p)
    f = ds.filter_by
    [lambda: f.path_length(min_length=2 + p % 3), lambda: f.remove_duplicates_fast(), lambda: f.truncate_count(max_count=1 + p % 2),
     lambda: f.start_end_distance(min_distance=1 + p % 3), lambda: f.collect_generation_meta(), lambda: f.cut_percentile_shortest(25.0)][p % 6]()


def op_serialize(p):
    from maze_dataset import MazeDataset

    ds = _small_dataset(p)
    ser = [ds._serialize_full, ds._serialize_minimal, ds._serialize_minimal_soln_cat][p % 3]()
    MazeDataset.load(ser)


def op_load_damaged(p):
    from maze_dataset import MazeDataset

    ds = _small_dataset(p)
    ser = [ds._serialize_full, ds._serialize_minimal, ds._serialize_minimal_soln_cat][p % 3]()
    ser = dict(ser)
    k = p % 4
    if k == 0:
        ser.pop("cfg", None)
    elif k == 1 and "maze_connection_lists" in ser:
        ser["maze_connection_lists"] = np.asarray(ser["maze_connection_lists"])[:-1] if len(ser["maze_connection_lists"]) else ser["maze_connection_lists"]
    elif k == 2:
        for key in ("maze_solutions", "maze_solutions_concat", "mazes"):
            if key in ser:
                ser[key] = ser[key][:1] if key == "mazes" else np.asarray(ser[key]) + 100
    else:
        ser["__format__"] = "MazeDataset:nonsense"
    MazeDataset.load(ser)


def op_collection(p):
    from maze_dataset.dataset.collected_dataset import MazeDatasetCollection, MazeDatasetCollectionConfig

    a, b = _small_dataset(p), _small_dataset(p + 1)
    col = MazeDatasetCollection(cfg=MazeDatasetCollectionConfig(name="prelude", maze_dataset_configs=[a.cfg, b.cfg]), maze_datasets=[a, b])
    len(col), col[0], col[len(col) - 1], col.dataset_cum_lengths, col.mazes


def op_rasterize(p):
    from maze_dataset.dataset.rasterized import process_maze_rasterized_input_target

    _, m = _solved(p)
    process_maze_rasterized_input_target(m, remove_isolated_cells=bool(p & 1), extend_pixels=bool(p & 2), endpoints_as_open=bool(p & 4))


def op_generator_meta(p):
    from maze_dataset.generation.generators import LatticeMazeGenerators as G

    np.random.seed(p)
    r, c = SHAPES[p % len(SHAPES)]
    m = [lambda: G.gen_dfs_percolation(np.array([r, c]), p=0.3), lambda: G.gen_dfs(np.array([r, c]), accessible_cells=2 + p % 3),
         lambda: G.gen_percolation(np.array([r, c]), p=0.5), lambda: G.gen_wilson(np.array([r, c]))][p % 4]()
    m.get_connected_component()
    if r > 1 and c > 1:
        m.generate_random_path()


def op_enumerate(p):
    from maze_dataset.tokenization import CoordTokenizers, StepTokenizers, TargetTokenizers
    from maze_dataset.tokenization.all_tokenizers import MAZE_TOKENIZER_MODULAR_DEFAULT_VALIDATION_FUNCS
    from maze_dataset.utils import all_instances

    cls = [CoordTokenizers._CoordTokenizer, TargetTokenizers._TargetTokenizer, StepTokenizers._StepTokenizer][p % 3]
    list(all_instances(cls, MAZE_TOKENIZER_MODULAR_DEFAULT_VALIDATION_FUNCS if p & 1 else None))


def op_vocab(p):
    from maze_dataset.tokenization import MazeTokenizerModular
    from maze_dataset.tokenization.maze_tokenizer import VOCAB, VOCAB_LIST, VOCAB_TOKEN_TO_INDEX

    tok = MazeTokenizerModular()
    ids = tok.encode([VOCAB_LIST[(p * 37) % 4096], VOCAB.PATH_START])
    tok.decode(ids)
    VOCAB_TOKEN_TO_INDEX[VOCAB_LIST[p]]


def op_plot(p):
    import matplotlib.pyplot as plt
    from maze_dataset.plotting import MazePlot

    _, m = _solved(p % 4)
    MazePlot(m, unit_length=4 + p % 3).plot()
    plt.close("all")


def op_scribble_default_containers(p):
    """a caller edits containers the library handed out (its own copies on a property-preserving tree)"""
    from mzverif import lib

    cfg = lib.make_cfg(_spec(p))
    for d in (cfg.maze_ctor_kwargs, cfg.endpoint_kwargs):
        if isinstance(d, dict):
            d["prelude_key"] = p
    if isinstance(cfg.applied_filters, list):
        cfg.applied_filters.append({"name": "prelude", "args": (), "kwargs": {}})
    g, m = _solved(p)
    out = m.as_pixels()
    try:
        out[...] = 7
    except Exception:  # noqa: BLE001
        pass
    pts = m.get_solution_forking_points()
    for x in pts if isinstance(pts, tuple) else (pts,):
        try:
            x[...] = 0
        except Exception:  # noqa: BLE001
            pass


OPS = {
    "solve": op_solve, "solve_unsolvable": op_solve_unsolvable, "bad_endpoint": op_bad_endpoint, "graph_queries": op_graph_queries,
    "eq_hash": op_eq_hash, "render": op_render, "render_garbage": op_render_garbage, "tokenize_modular": op_tokenize_modular,
    "tokenize_legacy": op_tokenize_legacy, "parse_garbage": op_parse_garbage, "config": op_config, "generate": op_generate,
    "filters": op_filters, "serialize": op_serialize, "load_damaged": op_load_damaged, "collection": op_collection,
    "rasterize": op_rasterize, "generator_meta": op_generator_meta, "enumerate": op_enumerate, "vocab": op_vocab, "plot": op_plot,
    "scribble": op_scribble_default_containers,
}
OP_NAMES = sorted(OPS)
CHEAP = [n for n in OP_NAMES if n != "plot"]


def run(prelude) -> None:
    for name, p in prelude:
        fn = OPS.get(name)
        if fn is None:
            continue
        try:
            fn(int(p))
        except Exception:  # noqa: BLE001 - what an earlier, unrelated use did or raised is not this case's verdict
            pass


HEAVY = ["collection", "config", "filters", "generate", "load_damaged", "serialize", "plot"]  # 5..15 ms each; the others stay below 2 ms
LIGHT = [n for n in OP_NAMES if n not in HEAVY]


def from_digest(d: int) -> list:
    """the prelude of a case is a pure function of the case's digest (no extra random draws: the generated cases stay what they
    were, replay is exact): one or two operations, a heavy one about one time in four"""
    out = []
    for k in range(1 + (d & 1)):
        x = (d >> (1 + 16 * k)) & 0xFFFF
        pool = HEAVY if x % 4 == 0 else LIGHT
        out.append([pool[(x >> 2) % len(pool)], (x >> 8) % 64])
    return out


def selftest() -> dict:
    """which operations complete / raise on the tree at hand (diagnostics only)"""
    import time

    out = {}
    for name in OP_NAMES:
        ok = bad = 0
        t = time.time()
        errs = set()
        for p in range(24):
            try:
                OPS[name](p)
                ok += 1
            except Exception as e:  # noqa: BLE001
                bad += 1
                errs.add(type(e).__name__ + ":" + str(e)[:60])
        out[name] = {"ok": ok, "raised": bad, "ms_per_op": round(1000 * (time.time() - t) / 24, 1), "errors": sorted(errs)[:3]}
    return out


if __name__ == "__main__":
    print(json.dumps(selftest(), indent=1))
