"""C01 - generators emit well-formed lattice graphs; DFS and Wilson emit spanning trees."""

from __future__ import annotations

import numpy as np
from hypothesis import strategies as st

from mzverif import core
from mzverif import gen as G
from mzverif import lib as L
from mzverif import model as M
from mzverif.core import Sub, Violation, call, require

ID = "C01"
LEVEL = "exploration"
TECHNIQUE = "Hypothesis over (generator, shape incl. its container: int64/int8/int16/int32 array, tuple, list; accepted kwargs; RNG seeds; corridor-like grids with a side of 30..140, thorough ..257); oracle = validity predicate from an independent graph model (shape/dtype/boundary bits, union-find spanning-tree test, exact percolation extremes)"
RULE = (
    "case = (generator name, r, c, kwargs from the accepted domains, numpy seed, python seed); the globals are seeded from the case "
    "so every RNG state is a generated input. Sub-domain 'defaults' calls gen_dfs/gen_wilson with default arguments only and "
    "demands a spanning tree. Non-trivial = r,c >= 2 and r*c >= 6; distinct by canonical case digest."
)
ASSUMPTIONS = [
    "accepted kwargs are those of the signatures/docstrings: accessible_cells None|int>=0|float in [0,1] (int|None for gen_dfs_percolation), "
    "max_tree_depth None|int>=0|float in [0,1], booleans, in-grid start_coord, p in [0,1], lattice_dim=2 (default)",
    "grid_shape is passed as an ndarray, as MazeDataset.generate does",
    "gen_prim is only required to be well-formed (the statement names the depth-first and Wilson generators for the spanning-tree claim)",
]


def check(case: dict):
    r, c = case["r"], case["c"]
    name = case["gen"]
    kw = case.get("kw", {})
    m = call(f"C01:{name}", L.run_generator, case)
    cl = m.connection_list
    require(isinstance(cl, np.ndarray), f"C01:{name}:type", f"connection_list is {type(cl)}")
    require(tuple(cl.shape) == (2, r, c), f"C01:{name}:shape", f"shape {cl.shape} for requested {r}x{c}")
    require(cl.dtype == np.bool_, f"C01:{name}:dtype", f"dtype {cl.dtype}")
    g = M.g_from_cl(cl)
    bad = M.boundary_bits_set(g)
    require(not bad, f"C01:{name}:connection-leaves-grid", f"boundary bits set {bad} on {r}x{c} with {kw}")
    labels = [name, "oblong" if r != c else "square"] + [f"kw:{k}" for k in kw]
    if r == 1 or c == 1:
        labels.append("1xN")
    if name in ("gen_dfs", "gen_wilson") and not kw:
        labels.append("defaults")
        ne = M.n_edges(g)
        require(
            M.is_spanning_tree(g),
            f"C01:{name}:not-spanning-tree",
            f"{r}x{c}: {ne} connections (need {r * c - 1}), component of (0,0) has "
            f"{len(M.component(M.adj(g), (0, 0)))} of {r * c} cells; bits={g['cl']}",
        )
    if name == "gen_percolation" and "p" in kw:
        if kw["p"] == 0:
            labels.append("p=0")
            require(M.n_edges(g) == 0 and "1" not in g["cl"], "C01:percolation:p0-has-connections", f"bits={g['cl']}")
        if kw["p"] == 1:
            labels.append("p=1")
            want = r * (c - 1) + c * (r - 1)
            require(M.n_edges(g) == want, "C01:percolation:p1-missing-edges", f"{M.n_edges(g)} of {want} lattice edges; bits={g['cl']}")
    return {"nt": r >= 2 and c >= 2 and r * c >= 6, "labels": labels}


def _validate(name, r, c, kw, m, where=""):
    """the statement's clauses on one returned maze (used where mazes are produced several at a time)"""
    cl = m.connection_list
    require(isinstance(cl, np.ndarray) and tuple(cl.shape) == (2, r, c) and cl.dtype == np.bool_, f"C01:{name}:shape", f"{where}{getattr(cl, 'shape', None)} / {getattr(cl, 'dtype', None)} for requested {r}x{c}")
    g = M.g_from_cl(cl)
    bad = M.boundary_bits_set(g)
    require(not bad, f"C01:{name}:connection-leaves-grid", f"{where}boundary bits set {bad} on {r}x{c} with {kw}")
    if name in ("gen_dfs", "gen_wilson") and not kw:
        require(M.is_spanning_tree(g), f"C01:{name}:not-spanning-tree", f"{where}{r}x{c}: {M.n_edges(g)} connections (need {r * c - 1}); bits={g['cl']}")
    if name == "gen_percolation" and kw.get("p") == 0:
        require(M.n_edges(g) == 0 and "1" not in g["cl"], "C01:percolation:p0-has-connections", f"{where}bits={g['cl']}")
    if name == "gen_percolation" and kw.get("p") == 1:
        require(M.n_edges(g) == r * (c - 1) + c * (r - 1), "C01:percolation:p1-missing-edges", f"{where}{M.n_edges(g)} lattice edges; bits={g['cl']}")


def check_threads(case: dict):
    """several threads of one process generate mazes at the same time (a data-loading thread next to the main thread, say). Which random
    numbers each call gets then depends on the interleaving - the statement holds for every sequence of random choices - and every maze
    handed back must satisfy it. The interleaving belongs to the interpreter: it is sampled (short switch interval), not enumerated."""
    import sys
    import threading

    from maze_dataset.generation.generators import GENERATORS_MAP

    L.seed_globals(case["np_seed"], case["py_seed"])
    results: list = [[] for _ in case["threads"]]
    errors: list = []
    start = threading.Barrier(len(case["threads"]))

    def work(k, jobs):
        try:
            start.wait()
            for name, r, c, kw in jobs:
                results[k].append((name, r, c, kw, GENERATORS_MAP[name](np.array([r, c]), **kw)))
        except BaseException as e:  # noqa: BLE001
            errors.append((k, e))

    old = sys.getswitchinterval()
    sys.setswitchinterval(1e-6)
    try:
        ths = [threading.Thread(target=work, args=(k, jobs)) for k, jobs in enumerate(case["threads"])]
        for t in ths:
            t.start()
        for t in ths:
            t.join()
    finally:
        sys.setswitchinterval(old)
    for k, e in errors:
        if isinstance(e, Exception) and core.raised_in_library(e):
            raise Violation(f"C01:threads:raises:{type(e).__name__}", f"thread {k}: {str(e)[:200]}")
        raise e
    n = 0
    for k, res in enumerate(results):
        for name, r, c, kw, m in res:
            _validate(name, r, c, kw, m, where=f"[{len(case['threads'])} threads, thread {k}] ")
            n += 1
    return {"nt": len(case["threads"]) >= 2 and n >= 4, "labels": [f"threads:{len(case['threads'])}"] + sorted({j[0] for jobs in case["threads"] for j in jobs})}


@st.composite
def _threads(draw):
    def job():
        name = draw(st.sampled_from(["gen_dfs", "gen_dfs", "gen_wilson", "gen_dfs_percolation", "gen_percolation", "gen_prim"]))
        r, c = draw(st.sampled_from([(8, 8), (5, 7), (3, 3), (6, 4), (10, 10), (2, 9)]))
        kw = {"p": draw(st.sampled_from([0.0, 1.0, 0.4]))} if "percolation" in name else {}
        return [name, r, c, kw]

    nthreads = draw(st.sampled_from([2, 3, 4, 4]))
    same = draw(st.booleans())  # all threads run the same generator (contention on whatever that generator shares) or a mix
    first = job()
    threads = []
    for _ in range(nthreads):
        jobs = [list(first) if same else job() for _ in range(draw(st.integers(6, 14)))]
        threads.append(jobs)
    return {"threads": threads, "np_seed": draw(st.integers(0, 2**32 - 1)), "py_seed": draw(st.integers(0, 2**32 - 1))}


def _strategy(hi, defaults_only=False, names=None):
    def s():
        return G.generator_call(lo=1, hi=hi, square=False, names=names, defaults_only=defaults_only)

    return s


@st.composite
def _perc_extremes(draw, hi):
    r, c = draw(G.shapes(1, hi))
    kw = {"p": draw(st.sampled_from([0.0, 1.0, 0, 1]))}
    if draw(st.booleans()):
        kw["start_coord"] = [draw(st.integers(0, r - 1)), draw(st.integers(0, c - 1))]
    return {"gen": "gen_percolation", "r": r, "c": c, "kw": kw,
            "np_seed": draw(st.integers(0, 2**32 - 1)), "py_seed": draw(st.integers(0, 2**32 - 1))}


@st.composite
def _elongated(draw, long_sizes):
    """corridor-like grids: one side 1..3 cells, the other tens of cells (random walks and depth-first searches run long here)"""
    n = draw(st.sampled_from(long_sizes))
    k = draw(st.sampled_from([1, 1, 2, 3]))
    r, c = (k, n) if draw(st.booleans()) else (n, k)
    name = draw(st.sampled_from(["gen_wilson", "gen_wilson", "gen_dfs", "gen_percolation", "gen_dfs_percolation"]))
    kw = {}
    if name in ("gen_percolation", "gen_dfs_percolation"):
        kw["p"] = draw(st.sampled_from([0.0, 1.0, 0.5]))
    return {"gen": name, "r": r, "c": c, "kw": kw, "np_seed": draw(st.integers(0, 2**32 - 1)), "py_seed": draw(st.integers(0, 2**32 - 1))}


def subs(tier: str):
    q = tier == "quick"
    hi = 12 if q else 30
    return [
        Sub("all-generators", check, "hypothesis", strategy=_strategy(hi), examples=400 if q else 4000),
        Sub("defaults-spanning-tree", check, "hypothesis",
            strategy=_strategy(hi if q else 20, defaults_only=True, names=["gen_dfs", "gen_wilson"]), examples=250 if q else 2000),
        Sub("elongated-grids", check, "hypothesis", strategy=lambda: _elongated([64, 140, 30, 100, 131] if q else [64, 30, 100, 48, 131, 150, 200, 257]), examples=8 if q else 60),
        Sub("percolation-extremes", check, "hypothesis", strategy=lambda: _perc_extremes(hi), examples=60 if q else 600),
        Sub("concurrent-threads", check_threads, "hypothesis", strategy=_threads, examples=6 if q else 60, ambient=False),
    ]
