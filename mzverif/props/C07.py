"""C07 - legacy tokenization round-trips and agrees with its modular equivalent."""

from __future__ import annotations

import numpy as np
from hypothesis import strategies as st

from mzverif import gen as G
from mzverif import lib as L
from mzverif import model as M
from mzverif.core import Discard, Sub, call, require
from mzverif.core import scribble as core_scribble

ID = "C07"
LEVEL = "exploration"
TECHNIQUE = "round trip (maze -> tokens -> maze, list and space-joined string) + differential legacy vs modular equivalent compared through an independent token-stream decoder; Hypothesis mazes of the three kinds on grids 2..20 (multi-digit coordinates), connected and sparse (last row/column walled off, isolated cells), int8..int64 coordinate storage"
RULE = (
    "case = (connected graph, solution, maze kind, legacy mode, max_grid_size None|n|20, tokenizer flavour MazeTokenizer | bare "
    "TokenizationMode | modular equivalent, input as list | string, numpy seed); dataset case = (items, tokenizer, limit, join). "
    "Non-trivial = grid_n >= 3 with a solution of >= 2 cells; distinct by canonical case digest."
)
ASSUMPTIONS = [
    "the token stream carries no grid size; as the quantifier says, mazes are those in which every row and every column index occurs in some connection "
    "(connected mazes, and sparse ones with several components / isolated cells that still satisfy this); other mazes are discarded and counted",
    "adjacency-list entries may come in any order and either orientation: streams are compared through the decoder, never token by token inside that region",
]

MODES = ["AOTP_UT_rasterized", "AOTP_UT_uniform", "AOTP_CTT_indexed"]


def _tokenizer(mode: str, flavour: str, mgs):
    from maze_dataset.tokenization import MazeTokenizer, MazeTokenizerModular, TokenizationMode

    tm = TokenizationMode[mode]
    if flavour == "legacy":
        return MazeTokenizer(tokenization_mode=tm, max_grid_size=mgs)
    if flavour == "mode":
        return tm
    return MazeTokenizerModular.from_legacy(tm)


def _params(mode):
    return M.LEGACY_PARAMS["CTT" if mode == "AOTP_CTT_indexed" else "UT"]


def _same(sig, back, kind, g, sol):
    cls = L.KIND_CLASS[kind]
    require(type(back) is cls, f"{sig}:kind", f"parsed a {type(back).__name__}, expected {cls.__name__}")
    require(L.g_of(back) == g, f"{sig}:connections", f"parsed {L.g_of(back)['cl']} ({back.connection_list.shape}) from {g['cl']} ({g['r']}x{g['c']})")
    if kind != "lattice":
        require(tuple(int(x) for x in back.start_pos) == tuple(sol[0]) and tuple(int(x) for x in back.end_pos) == tuple(sol[-1]), f"{sig}:endpoints",
                f"parsed {back.start_pos}->{back.end_pos}, expected {sol[0]}->{sol[-1]}")
    if kind == "solved":
        require(L.as_cells(back.solution) == [tuple(q) for q in sol], f"{sig}:solution", f"parsed {L.as_cells(back.solution)[:6]}.., expected {sol[:6]}..")


def check(case: dict):
    from maze_dataset.maze.lattice_maze import LatticeMaze

    g, sol, kind, mode = case["g"], case["sol"], case["kind"], case["mode"]
    n = g["r"]
    # the property quantifies over mazes in which every row and every column index occurs in some connection (the token stream
    # carries no grid size; it has to be recovered from the indices that occur)
    E_ = M.edges_of(g)
    if {x[0] for e_ in E_ for x in e_} != set(range(n)) or {x[1] for e_ in E_ for x in e_} != set(range(n)):
        raise Discard()
    mgs = {"none": None, "n": n, "20": max(20, n)}[case["mgs"]]
    flavour = case["flavour"]
    np.random.seed(case["np_seed"] % (2**32))
    m = L.make_kind(kind, g, sol, dtype=L.provenance(case, g))
    tok = _tokenizer(mode, flavour, mgs)
    sig = f"C07:{mode}:{flavour}"
    toks = call(f"{sig}:as_tokens", m.as_tokens, tok)
    require(isinstance(toks, list) and all(isinstance(t, str) for t in toks), f"{sig}:token-types", "as_tokens did not return a list of strings")
    prob = M.check_stream(_params(mode), toks, kind, g, sol)
    require(prob is None, f"{sig}:stream-not-faithful", f"{prob}; n={n} kind={kind}")
    arg = toks if case["input"] == "list" else " ".join(toks)
    for cname, cls in (("base", LatticeMaze), ("own", L.KIND_CLASS[kind])):
        back = call(f"{sig}:from_tokens:{case['input']}", cls.from_tokens, arg if isinstance(arg, str) else list(arg), tok)
        _same(f"{sig}:from_tokens:{case['input']}", back, kind, g, sol)
    # legacy vs modular equivalent on the same maze
    other = _tokenizer(mode, "modular" if flavour != "modular" else "legacy", mgs)
    toks2 = call(f"{sig}:as_tokens-equivalent", m.as_tokens, other)
    prob2 = M.check_stream(_params(mode), toks2, kind, g, sol)
    require(prob2 is None, f"{sig}:equivalent-stream-not-faithful", f"{prob2}")
    ra, rb = M.split_regions(toks, kind), M.split_regions(toks2, kind)
    for reg in ("origin", "target", "path"):
        if reg in ra:
            require(ra[reg] == rb[reg], f"{sig}:legacy-vs-modular:{reg}", f"{ra[reg][:8]} vs {rb[reg][:8]}")
    ea = sorted((sorted([a, b]), f) for a, b, f in M.parse_adjacency(_params(mode), ra["adj"]))
    eb = sorted((sorted([a, b]), f) for a, b, f in M.parse_adjacency(_params(mode), rb["adj"]))
    require(ea == eb and len(ra["adj"]) == len(rb["adj"]), f"{sig}:legacy-vs-modular:adjacency", "the two streams list different adjacency entries")
    labels = [mode, kind, flavour, f"input:{case['input']}", f"mgs:{case['mgs']}"] + ([f"walled:{case['wall']}"] if case.get("wall") else [])
    if n >= 11:
        labels.append("multi-digit")
    return {"nt": n >= 3 and len(sol) >= 2, "labels": labels}


def check_dataset(case: dict):
    """dataset-level tokenization: a sequence of as_tokens calls (limit x join) on ONE dataset object - a plain dataset or a collection
    of datasets (split given by `members`); every call must return the per-maze tokenization of the first min(limit, len) mazes in order"""
    from maze_dataset import MazeDataset, MazeDatasetCollection, MazeDatasetCollectionConfig, MazeDatasetConfig

    n, items, mode, flavour = case["n"], case["items"], case["mode"], case["flavour"]
    np.random.seed(case["np_seed"] % (2**32))
    mazes = [L.solved(it["g"], it["sol"], dtype=L.provenance([case, i], it["g"])) for i, it in enumerate(items)]
    split = case.get("members")
    if split:
        cfgs, members, k0 = [], [], 0
        for j, ln in enumerate(split):
            cfgs.append(MazeDatasetConfig(name=f"t{j}", grid_n=n, n_mazes=ln))
            members.append(MazeDataset(cfgs[-1], mazes[k0 : k0 + ln]))
            k0 += ln
        ds = MazeDatasetCollection(MazeDatasetCollectionConfig(name="tc", maze_dataset_configs=cfgs), members)
        holder = "collection"
    else:
        ds = MazeDataset(MazeDatasetConfig(name="t", grid_n=n, n_mazes=len(items)), mazes)
        holder = "dataset"
    tok = _tokenizer(mode, flavour, None)
    sig = f"C07:{holder}:{flavour}"
    calls = case.get("calls") or [[case["limit"], case["join"]]]
    labels = [mode, flavour, holder, f"calls:{min(len(calls), 3)}"]
    for step, (limit, join) in enumerate(calls):
        kw = {}
        if limit != "none":
            kw["limit"] = limit
        if join is not None:
            kw["join_tokens_individual_maze"] = join
        out = call(f"{sig}:as_tokens", ds.as_tokens, tok, **kw)
        hist = f" (call {step + 1} of {calls} on the same object)" if len(calls) > 1 else ""
        want_n = len(items) if limit == "none" else min(limit, len(items))
        require(isinstance(out, list) and len(out) == want_n, f"{sig}:count", f"{len(out)} entries for limit={limit}, join={join}, {len(items)} mazes (expected {want_n}){hist}")
        for i, ent in enumerate(out):
            if join:
                require(isinstance(ent, str), f"{sig}:join-type", f"entry {i} is {type(ent).__name__}, expected str{hist}")
                toks = ent.split(" ")
            else:
                require(isinstance(ent, list), f"{sig}:join-type", f"entry {i} is {type(ent).__name__}, expected list{hist}")
                toks = ent
            prob = M.check_stream(_params(mode), toks, "solved", items[i]["g"], items[i]["sol"])
            require(prob is None, f"{sig}:entry-not-maze-i", f"entry {i} (limit={limit}, join={join}) does not encode maze {i}: {prob}{hist}")
        labels += [f"limit:{'none' if limit == 'none' else ('0' if limit == 0 else ('lt' if limit < len(items) else 'ge'))}", f"join:{join}"]
        core_scribble(out)
    return {"nt": len(items) >= 2 and n >= 3, "labels": labels}


@st.composite
def _case(draw, hi):
    n = draw(st.sampled_from(list(range(2, hi + 1)) + [11, 12, 13] * 2 + [hi]))
    n = min(n, hi)
    base = draw(G.solved_case(lo=n, hi=n, square=True, connected=True))
    return {
        "g": base["g"], "sol": base["sol"], "kind": draw(st.sampled_from(["lattice", "targeted", "solved", "solved"])),
        "mode": draw(st.sampled_from(MODES)), "mgs": draw(st.sampled_from(["none", "n", "20"])),
        "flavour": draw(st.sampled_from(["legacy", "mode", "modular"])), "input": draw(st.sampled_from(["list", "string"])),
        "np_seed": draw(st.integers(0, 2**32 - 1)),
    }


@st.composite
def _sparse_case(draw, hi):
    """mazes that are not connected (several components, isolated cells) but in which every row and column index occurs in a connection"""
    n = draw(st.sampled_from(list(range(2, min(hi, 9) + 1)) + [11]))
    g = draw(G.graphs(n, n))
    # make sure every row and column index occurs: add one horizontal connection per row and one vertical connection per column where missing
    wall = "none"
    bits = list(g["cl"])
    E0 = M.edges_of(g)
    rows = {x[0] for e_ in E0 for x in e_}
    cols = {x[1] for e_ in E0 for x in e_}
    for i in range(n):
        if i not in rows and n >= 2:
            j = draw(st.integers(0, n - 2))
            bits[M.edge_bit(n, n, (i, j), (i, j + 1))] = "1"
    E0 = M.edges_of({"r": n, "c": n, "cl": "".join(bits)})
    cols = {x[1] for e_ in E0 for x in e_}
    for j in range(n):
        if j not in cols and n >= 2:
            i = draw(st.integers(0, n - 2))
            bits[M.edge_bit(n, n, (i, j), (i + 1, j))] = "1"
    g = {"r": n, "c": n, "cl": "".join(bits)}
    a = M.adj(g)
    s = tuple(draw(G.cell_in(n, n)))
    comp = sorted(M.bfs(a, s).items(), key=lambda kv: (-kv[1], kv[0]))
    e = draw(st.sampled_from([u for u, _ in comp[: max(1, len(comp) // 2)]]))
    sol = [list(q) for q in draw(st.sampled_from(M.all_shortest_paths(a, s, e, cap=3)))]
    return {
        "g": g, "sol": sol, "kind": draw(st.sampled_from(["lattice", "targeted", "solved", "solved"])),
        "mode": draw(st.sampled_from(MODES)), "mgs": draw(st.sampled_from(["none", "n", "20"])),
        "flavour": draw(st.sampled_from(["legacy", "mode", "modular"])), "input": draw(st.sampled_from(["list", "string"])),
        "np_seed": draw(st.integers(0, 2**32 - 1)), "wall": wall,
    }


def check_degree_twins(case: dict):
    """two mazes of one size with the same number of connections at every cell (so that every per-cell or per-token *count* agrees) but
    different connections, converted and parsed one after the other in one process - A, B, A again"""
    check(case["a"])
    r = check(case["b"])
    check(case["a"])
    return {"nt": True, "labels": ["degree-twins"] + list((r or {}).get("labels", ()))[:3]}


@st.composite
def _degree_twins(draw, hi):
    base = draw(_case(hi))
    g = base["g"]
    n = g["r"]
    bits = M.g_bits(g)
    i, j = draw(st.integers(0, n - 2)), draw(st.integers(0, n - 2))
    top, bottom = M.edge_bit(n, n, (i, j), (i, j + 1)), M.edge_bit(n, n, (i + 1, j), (i + 1, j + 1))
    left, right = M.edge_bit(n, n, (i, j), (i + 1, j)), M.edge_bit(n, n, (i, j + 1), (i + 1, j + 1))
    ba, bb = list(bits), list(bits)
    ba[top] = ba[bottom] = 1
    ba[left] = ba[right] = 0
    bb[top] = bb[bottom] = 0
    bb[left] = bb[right] = 1
    out = {}
    for key, b in (("a", ba), ("b", bb)):
        gg = M.g_make(n, n, b)
        a = M.adj(gg)
        s = tuple(base["sol"][0])
        far = sorted(M.bfs(a, s).items(), key=lambda kv: (-kv[1], kv[0]))[0][0]
        out[key] = dict(base, g=gg, sol=[list(q) for q in M.shortest_path(a, s, far)])
    return out


# (grids beyond the quantified 2..20 are deliberately not part of this check: the modular vocabulary ends at 50x50, so a library
#  that refuses larger grids there would still satisfy the property; the int8 edge arithmetic on large grids is C13's business)
@st.composite
def _big_case(draw):
    base = draw(G.big_int8_case(sizes=(70, 127, 100, 65)))
    return {
        "g": base["g"], "sol": base["sol"], "dtype": "int8", "kind": draw(st.sampled_from(["solved", "solved", "targeted", "lattice"])),
        "mode": draw(st.sampled_from(MODES)), "mgs": draw(st.sampled_from(["none", "n"])),
        "flavour": draw(st.sampled_from(["modular", "legacy", "mode"])), "input": draw(st.sampled_from(["list", "string"])),
        "np_seed": draw(st.integers(0, 2**32 - 1)),
    }


@st.composite
def _dataset(draw, hi):
    n = draw(st.sampled_from([2, 3, 4, 5, 11]))
    items = draw(st.lists(G.solved_case(lo=n, hi=n, square=True, connected=True), min_size=1, max_size=5))
    items = [{"g": it["g"], "sol": it["sol"]} for it in items]
    lim = st.sampled_from(["none", "none", 0, 1, 2, len(items), len(items) + 3])
    calls = draw(st.lists(st.tuples(lim, st.sampled_from([None, False, True, True])).map(list), min_size=1, max_size=4))
    case = {"n": n, "items": items, "mode": draw(st.sampled_from(MODES)), "flavour": draw(st.sampled_from(["legacy", "modular"])),
            "calls": calls, "np_seed": draw(st.integers(0, 2**32 - 1))}
    if draw(st.booleans()):
        # the same mazes held by a collection of datasets (members may be empty)
        cuts = sorted(draw(st.lists(st.integers(0, len(items)), min_size=1, max_size=3)))
        bounds = [0] + cuts + [len(items)]
        case["members"] = [b - a for a, b in zip(bounds[:-1], bounds[1:])]
    return case


def subs(tier: str):
    q = tier == "quick"
    return [
        Sub("mazes", check, "hypothesis", strategy=lambda: _case(20), examples=120 if q else 4000),
        Sub("sparse-mazes", check, "hypothesis", strategy=lambda: _sparse_case(20), examples=80 if q else 2000),
        Sub("degree-twins", check_degree_twins, "hypothesis", strategy=lambda: _degree_twins(8 if q else 14), examples=20 if q else 500),
        Sub("datasets", check_dataset, "hypothesis", strategy=lambda: _dataset(20), examples=50 if q else 1000),
    ]
