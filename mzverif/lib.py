"""Thin adapters from JSON cases to library objects (the only place cases meet the code under test)."""

from __future__ import annotations

import random
import warnings

import numpy as np

warnings.filterwarnings("ignore")

from maze_dataset.maze.lattice_maze import LatticeMaze, SolvedMaze, TargetedLatticeMaze  # noqa: E402

from mzverif import model as M  # noqa: E402


def cl_with_layout(g: dict, layout: str | None = None) -> np.ndarray:
    """the connection array of g in one of the memory layouts a caller's array may have - same shape, same values, other strides:
    C order, Fortran order, or a view obtained by moving the direction axis of an (rows, cols, 2) array to the front. Chosen from
    the graph itself when not given (a pure function of the case, so replay is exact)."""
    cl = M.g_cl(g)
    if layout is None:
        from mzverif.core import digest

        layout = ("C", "C", "C", "F", "moveaxis")[digest([g["r"], g["c"], list(g["cl"])]) % 5]
    if layout == "F":
        return np.asfortranarray(cl)
    if layout == "moveaxis":
        return np.moveaxis(np.ascontiguousarray(np.moveaxis(cl, 0, -1)), -1, 0)
    return cl


def lattice(g: dict, meta: dict | None = None, layout: str | None = None) -> LatticeMaze:
    return LatticeMaze(connection_list=cl_with_layout(g, layout), generation_meta=meta)


def _layout(arr: np.ndarray, dtype) -> np.ndarray:
    """memory layout is array provenance too: a narrow dtype handed over by `provenance` also selects Fortran order for int16 (and a
    transposed view of a C array has the same layout) - same values, same shape, different strides"""
    if dtype == "int16" and arr.ndim >= 2:
        return np.asfortranarray(arr)
    return arr


def targeted(g: dict, s, e, meta: dict | None = None, dtype=None) -> TargetedLatticeMaze:
    return TargetedLatticeMaze(
        connection_list=_layout(M.g_cl(g), dtype), start_pos=np.array(s, dtype=dtype), end_pos=np.array(e, dtype=dtype), generation_meta=meta
    )


def solved(g: dict, sol, meta: dict | None = None, dtype=None) -> SolvedMaze:
    return SolvedMaze(connection_list=_layout(M.g_cl(g), dtype), solution=_layout(np.array(sol, dtype=dtype), dtype), generation_meta=meta)


def make_kind(kind: str, g: dict, sol, dtype=None):
    if kind == "lattice":
        return lattice(g)
    if kind == "targeted":
        return targeted(g, sol[0], sol[-1], dtype=dtype)
    if kind == "solved":
        return solved(g, sol, dtype=dtype)
    raise ValueError(kind)


def provenance(case, g: dict):
    """integer width of the coordinate arrays a maze is built with - a pure function of the case, so replay is exact. The value of a
    maze does not depend on it: the library's own minimal-format loader hands out int8 solutions, generators hand out int64."""
    from mzverif.core import digest

    if max(g["r"], g["c"]) > 127:
        return None
    if isinstance(case, dict) and case.get("dtype"):
        return case["dtype"]
    return (None, None, "int8", "int8", "int16", "int32")[digest(case) % 6]


KIND_CLASS = {"lattice": LatticeMaze, "targeted": TargetedLatticeMaze, "solved": SolvedMaze}


def seed_globals(np_seed: int, py_seed: int) -> None:
    np.random.seed(np_seed % (2**32))
    random.seed(py_seed)


def g_of(m) -> dict:
    return M.g_from_cl(np.asarray(m.connection_list))


def as_cells(arr) -> list[tuple[int, int]]:
    a = np.asarray(arr)
    if a.size == 0:
        return []
    return [tuple(int(x) for x in q) for q in a.reshape(-1, 2)]


def run_generator(case: dict):
    """call a registered generator exactly as `MazeDataset.generate` does (grid_shape as ndarray, kwargs as loaded from JSON)"""
    from maze_dataset.generation.generators import GENERATORS_MAP

    seed_globals(case["np_seed"], case["py_seed"])
    fn = GENERATORS_MAP[case["gen"]]
    kw = dict(case.get("kw", {}))
    form = case.get("shape_form") or "int64"
    if form in ("tuple", "list"):
        shape = (case["r"], case["c"]) if form == "tuple" else [case["r"], case["c"]]
    else:
        shape = np.array([case["r"], case["c"]], dtype=form)
    return fn(shape, **kw)


# ----------------------------------------------------------------------------------------------
# dataset configurations as JSON specs
# ----------------------------------------------------------------------------------------------


def make_cfg(spec: dict):
    """MazeDatasetConfig from a JSON spec: {name, grid_n, n_mazes, ctor, kwargs, endpoint, seed, filters}"""
    from maze_dataset import MazeDatasetConfig
    from maze_dataset.generation.generators import GENERATORS_MAP

    ep = {}
    for k, v in spec.get("endpoint", {}).items():
        ep[k] = [tuple(x) for x in v] if isinstance(v, list) else v
    filters = [
        dict(name=f["name"], args=tuple(f.get("args", [])), kwargs=dict(f.get("kwargs", {})))
        for f in spec.get("filters", [])
    ]
    kw = dict(
        name=spec.get("name", "cfg"),
        grid_n=spec["grid_n"],
        n_mazes=spec["n_mazes"],
        maze_ctor=GENERATORS_MAP[spec.get("ctor", "gen_dfs")],
        maze_ctor_kwargs=json_copy(spec.get("kwargs", {})),
        endpoint_kwargs=ep,
        applied_filters=filters,
    )
    if "seed" in spec:
        kw["seed"] = spec["seed"]
    built = spec.get("built")
    if not built:
        return MazeDatasetConfig(**kw)
    # the same configuration arrived at by a caller who built a config object, looked at it (file name, serialized form, hash, summary)
    # and then edited it in place to its final content: containers are filled through their own methods, scalar fields are assigned.
    # The object that comes out has exactly the fields of the plain construction; what it was before is not part of its value.
    first = dict(kw, maze_ctor_kwargs={}, endpoint_kwargs={}, applied_filters=[])
    if built.get("scalars"):
        first.update(name=kw["name"] + "0", grid_n=kw["grid_n"] + 1, n_mazes=kw["n_mazes"] + 1, seed=kw.get("seed", 42) + 1)
        others = [f for f in GENERATORS_MAP.values() if f is not kw["maze_ctor"]]
        first["maze_ctor"] = others[built.get("use", 0) % len(others)]
    cfg = MazeDatasetConfig(**first)
    use = built.get("use", 0)
    for bit, fn in enumerate((cfg.to_fname, cfg.serialize, cfg.stable_hash_cfg, cfg.summary)):
        if use >> bit & 1:
            try:
                fn()
            except Exception:  # noqa: BLE001 - what the intermediate object answers is not the case's business
                pass
    cfg.maze_ctor_kwargs.update(kw["maze_ctor_kwargs"])
    cfg.endpoint_kwargs.update(kw["endpoint_kwargs"])
    cfg.applied_filters.extend(kw["applied_filters"])
    if built.get("scalars"):
        cfg.name, cfg.grid_n, cfg.n_mazes, cfg.maze_ctor = kw["name"], kw["grid_n"], kw["n_mazes"], kw["maze_ctor"]
        if "seed" in kw:
            cfg.seed = kw["seed"]
        else:
            cfg.seed = MazeDatasetConfig(**dict(kw, maze_ctor_kwargs={}, endpoint_kwargs={}, applied_filters=[])).seed
    return cfg


def json_copy(x):
    import json

    return json.loads(json.dumps(x))


# ----------------------------------------------------------------------------------------------
# tokenizers from parameter dicts (see model.py, "token-stream decoder")
# ----------------------------------------------------------------------------------------------


def make_tokenizer(params: dict):
    from maze_dataset.tokenization import (
        AdjListTokenizers,
        CoordTokenizers,
        EdgeGroupings,
        EdgePermuters,
        EdgeSubsets,
        MazeTokenizerModular,
        PathTokenizers,
        PromptSequencers,
        StepSizes,
        StepTokenizers,
        TargetTokenizers,
    )

    cp = params["coord"]
    coord = CoordTokenizers.UT() if cp["kind"] == "UT" else CoordTokenizers.CTT(pre=cp["pre"], intra=cp["intra"], post=cp["post"])
    ap = params["adj"]
    subset = {"all": EdgeSubsets.AllLatticeEdges(), "conn": EdgeSubsets.ConnectionEdges(walls=False), "walls": EdgeSubsets.ConnectionEdges(walls=True)}[ap["subset"]]
    perm = {"sorted": EdgePermuters.SortedCoords(), "random": EdgePermuters.RandomCoords(), "both": EdgePermuters.BothCoords()}[ap["permuter"]]
    acls = AdjListTokenizers.AdjListCoord if ap["cls"] == "coord" else AdjListTokenizers.AdjListCardinal
    adj = acls(pre=False, post=ap["post"], shuffle_d0=ap["shuffle_d0"], edge_grouping=EdgeGroupings.Ungrouped(connection_token_ordinal=ap["ordinal"]),
               edge_subset=subset, edge_permuter=perm)
    pp = params["path"]
    stepmap = {"coord": StepTokenizers.Coord, "cardinal": StepTokenizers.Cardinal, "relative": StepTokenizers.Relative, "distance": StepTokenizers.Distance}
    path = PathTokenizers.StepSequence(
        step_size=StepSizes.Singles() if pp["step_size"] == "singles" else StepSizes.Forks(),
        step_tokenizers=tuple(stepmap[s]() for s in pp["steps"]),
        pre=pp["pre"], intra=pp["intra"], post=pp["post"],
    )
    if params["seq"] == "AOTP":
        seq = PromptSequencers.AOTP(coord_tokenizer=coord, adj_list_tokenizer=adj, target_tokenizer=TargetTokenizers.Unlabeled(post=params["target"]["post"]), path_tokenizer=path)
    else:
        seq = PromptSequencers.AOP(coord_tokenizer=coord, adj_list_tokenizer=adj, path_tokenizer=path)
    return MazeTokenizerModular(prompt_sequencer=seq)


def dataset_digest(spec: dict) -> str:
    """digest of the serially generated dataset of a specification (importable, so that it can run inside worker processes a caller
    created with multiprocessing - under the fork and the spawn start method alike)"""
    import hashlib
    import json
    import warnings

    warnings.filterwarnings("ignore")
    from maze_dataset import MazeDataset

    try:
        ds = MazeDataset.generate(make_cfg(spec))
    except ValueError:
        return "ValueError"
    return hashlib.sha256(json.dumps([(g_of(m)["cl"], [list(c) for c in as_cells(m.solution)]) for m in ds.mazes]).encode()).hexdigest()


def cfg_fields(cfg) -> dict:
    """content of a configuration object read field by field, without going through the library's serializer (which is itself code
    under test and runs on the caller's object): what 'the configuration object passed in is not modified' is compared on.
    Containers are compared by content (tuple / list and key order are not distinguished), functions by name."""
    import numpy as np

    def canon(v):
        if isinstance(v, dict):
            return {"dict": sorted((str(k), canon(x)) for k, x in v.items())}
        if isinstance(v, (list, tuple)):
            return [canon(x) for x in v]
        if isinstance(v, np.ndarray):
            return {"nd": v.tolist()}
        if isinstance(v, np.generic):
            return v.item()
        if callable(v):
            return {"fn": getattr(v, "__name__", repr(v))}
        if isinstance(v, (str, int, float, bool)) or v is None:
            return v
        return repr(v)

    return {k: canon(v) for k, v in sorted(vars(cfg).items()) if not k.startswith("_")}
