#!/venv/bin/python
"""run the quick checks against every kept property-PRESERVING change (benign/<ID>-<k>); a non-zero exit of a check is a false alarm.
usage: benign_regress.py [ID-prefix ...]   (writes benign/RESULTS.json when run without a selection)"""
import glob, json, os, subprocess, sys
here = os.path.dirname(os.path.dirname(os.path.abspath(__file__)))
sel = sys.argv[1:]
rows = []
for d in sorted(glob.glob(os.path.join(here, "benign", "C*-*"))):
    name = os.path.basename(d)
    if sel and not any(name.startswith(x) for x in sel):
        continue
    prop = name.split("-")[0]
    p = subprocess.run([os.path.join(here, "tools", "benign_eval.sh"), d, prop], capture_output=True, text=True)
    try:
        ev = json.loads(p.stdout.strip().splitlines()[-1])
        row = {"benign": name, "applies": ev.get("applies"), "demo_with_change": ev.get("demo_rc"), "check_exit": ev.get("check_rc"), "signatures": ev.get("signatures", "")}
    except Exception as e:  # noqa: BLE001
        row = {"benign": name, "error": str(e), "stderr": p.stderr[-300:]}
    rows.append(row)
    print(json.dumps(row), flush=True)
if not sel:
    json.dump(rows, open(os.path.join(here, "benign", "RESULTS.json"), "w"), indent=1)
print("FALSE ALARMS:", [r["benign"] for r in rows if r.get("check_exit") != 0])
