"""C20 - maze plots draw the maze that was given."""

from __future__ import annotations

import numpy as np
from hypothesis import strategies as st

from mzverif import core
from mzverif import gen as G
from mzverif import lib as L
from mzverif import model as M
from mzverif.core import Sub, call, require

ID = "C20"
LEVEL = "exploration"
TECHNIQUE = "Hypothesis over mazes of the three kinds (square up to 13x13, wide and tall, int8..int64 paths), unit lengths 3..16, node values, extra true / predicted paths (revisiting cells), same-flags-other-shape twins plotted in one process, the same plot object drawn again after its paths changed, path arrays reused by the caller before drawing; oracle = image blocks and strips read back from the Agg figure against the graph model, line / quiver artists against the listed cells, ASCII export against the independent renderer; cell values of another grid refused before the plot, plots into caller-owned axes, arrow end points through the quiver scale"
RULE = (
    "case = (connection bits, kind, solution, unit_length 3..16, optional matrix of cell values, extra true / predicted paths as lists "
    "or arrays). Non-trivial = >= 1 connection, >= 1 wall and a plotted path with a turn; distinct by canonical case digest."
)
ASSUMPTIONS = [
    "a separator strip is the run of pixels between two cell blocks excluding the corner pixels; 'wall' means the background value -1 without cell values and NaN (masked) with cell values",
    "only lattice-edge strips and cell blocks are asserted; the outer frame and corner pixels are not part of the statement",
    "predicted paths have >= 2 cells (an arrow needs two points); cell values are finite",
]


def _blocks_and_strips(sig, arr, g, ul, values):
    nr, nc = g["r"], g["c"]
    a = M.adj(g)
    data = np.ma.getdata(arr).astype(float)
    mask = np.ma.getmaskarray(arr) | np.isnan(data)
    require(data.shape == (nr * ul + 1, nc * ul + 1), f"{sig}:image-size", f"{data.shape} for grid {nr}x{nc}, unit {ul}")

    def look(sl):
        """how a region is drawn: 'masked' (nothing drawn there) or the set of values it shows"""
        if bool(np.all(mask[sl])):
            return ("masked",)
        if bool(np.any(mask[sl])):
            return ("mixed",)
        return tuple(sorted({round(float(x), 9) for x in np.unique(data[sl])}))

    cell_looks = {}
    for i in range(nr):
        for j in range(nc):
            blk = (slice(i * ul + 1, (i + 1) * ul), slice(j * ul + 1, (j + 1) * ul))
            lk = look(blk)
            require(len(lk) == 1 and lk != ("masked",) and lk != ("mixed",), f"{sig}:cell-block", f"cell ({i},{j}): block is not drawn uniformly: {lk[:4]}")
            if values is not None:
                require(abs(lk[0] - float(values[i][j])) < 1e-9, f"{sig}:cell-block", f"cell ({i},{j}): block shows {lk[0]}, supplied value {values[i][j]}")
            cell_looks[(i, j)] = lk
    if values is None:
        require(len(set(cell_looks.values())) == 1, f"{sig}:cell-block", f"cells are drawn with different values: {sorted(set(cell_looks.values()))[:4]}")
    # one strip per lattice edge: all wall strips look alike, and no passage strip looks like a wall
    walls, passages = {}, {}
    for (i, j), (k, l) in M.lattice_edges(nr, nc):
        if k == i + 1:
            sl = (slice((i + 1) * ul, (i + 1) * ul + 1), slice(j * ul + 1, (j + 1) * ul))
        else:
            sl = (slice(i * ul + 1, (i + 1) * ul), slice((j + 1) * ul, (j + 1) * ul + 1))
        (passages if (k, l) in a[(i, j)] else walls)[((i, j), (k, l))] = look(sl)
    # (the outer frame is not used as a reference: the statement speaks of cell blocks and edge strips only)
    wall_looks = set(walls.values())
    require(len(wall_looks) <= 1, f"{sig}:wall-drawn-as-passage", f"wall strips are not drawn alike: {sorted(wall_looks)[:4]}; bits={g['cl']}")
    if wall_looks:
        wl = next(iter(wall_looks))
        require(wl != ("mixed",), f"{sig}:wall-drawn-as-passage", "a wall strip is partly drawn, partly not")
        for e, lk in passages.items():
            require(lk != wl and lk != ("mixed",), f"{sig}:connected-drawn-as-wall", f"edge {e[0]}-{e[1]} is a connection but its strip is drawn like a wall ({lk}); bits={g['cl']}")
        if values is None:
            cl_ = next(iter(cell_looks.values()))
            require(cl_ != wl, f"{sig}:cell-block", f"cells are drawn like walls ({cl_})")
    # which of the two looks is 'wall': the closing border below the last row and right of the last column is never a passage. It is
    # used as the reference only if it is drawn uniformly (a library may draw its border any way it likes - then there is no anchor)
    H_, W_ = data.shape
    border = {look((slice(H_ - 1, H_), slice(j * ul + 1, (j + 1) * ul))) for j in range(nc)} | {look((slice(i * ul + 1, (i + 1) * ul), slice(W_ - 1, W_))) for i in range(nr)}
    if len(border) == 1 and ("mixed",) not in border:
        bl = next(iter(border))
        for e, lk in passages.items():
            require(lk != bl, f"{sig}:connected-drawn-as-wall", f"edge {e[0]}-{e[1]} is a connection but its strip is drawn like the closed outer border ({lk}); bits={g['cl']}")
        for e, lk in walls.items():
            require(lk == bl, f"{sig}:wall-drawn-as-passage", f"edge {e[0]}-{e[1]} is a wall but its strip ({lk}) is not drawn like the closed outer border ({bl}); bits={g['cl']}")


def _xy(path, ul):
    return [(ul * (c + 0.5), ul * (r + 0.5)) for r, c in path]


def check(case: dict):
    if case.get("pre"):
        # another maze plotted first in the same process (e.g. one of another shape holding the same flags in the same flat order)
        check(case["pre"])
    return _check_one(case)


def _check_one(case: dict):
    import matplotlib

    matplotlib.use("Agg", force=True)
    import matplotlib.pyplot as plt
    from maze_dataset.plotting import MazePlot

    M.sync_palette()
    g, sol, kind, ul = case["g"], case["sol"], case["kind"], case["ul"]
    values = case.get("values")
    pdt = L.provenance(case, g)
    m = L.make_kind(kind, g, sol, dtype=pdt)
    sig = "C20"
    try:
        mp = call("C20:construct", MazePlot, m, unit_length=ul)
        if case.get("rejected_values"):
            # the caller first offers cell values that cannot belong to this maze (another grid's); the offer is refused, the caller
            # carries on. What the refusal looks like is the library's choice; the plot that follows shows what was accepted.
            dr, dc = case["rejected_values"]
            try:
                mp.add_node_values(np.arange((g["r"] + dr) * (g["c"] + dc), dtype=float).reshape(g["r"] + dr, g["c"] + dc) / 7.0 - 1.0, hide_colorbar=True)
                accepted = True
            except Exception:  # noqa: BLE001
                accepted = False
            if accepted:
                raise core.Discard()
        if values is not None:
            call("C20:add_node_values", mp.add_node_values, np.array(values, dtype=float), hide_colorbar=case.get("hide_colorbar", True))
        true_path = [tuple(q) for q in sol] if kind != "lattice" else None
        handed: list = []
        if case.get("true_path") is not None:
            tp = case["true_path"]
            arg = np.array(tp, dtype=pdt) if case.get("as_array") else [tuple(q) for q in tp]
            handed.append(arg)
            call("C20:add_true_path", mp.add_true_path, arg)
            true_path = [tuple(q) for q in tp]
        preds = []
        for k, pp in enumerate(case.get("pred_paths", [])):
            arg = np.array(pp, dtype=pdt) if (case.get("as_array") and k % 2 == 0) else [tuple(q) for q in pp]
            handed.append(arg)
            call("C20:add_predicted_path", mp.add_predicted_path, arg)
            preds.append([tuple(q) for q in pp])
        if case.get("reuse_buffers"):
            # the caller reuses the arrays it passed in (one preallocated buffer for successive roll-outs, say) before the plot is drawn
            for arr in handed:
                core.scribble(arr)
        for rnd in (0, 1):
            if rnd == 1:
                if not case.get("replot"):
                    break
                # the same plot object is drawn again after the caller changed what it lists: the new drawing shows what is listed now
                rp = case["replot"]
                if rp.get("true_path") is not None:
                    call("C20:add_true_path", mp.add_true_path, [tuple(q) for q in rp["true_path"]])
                    true_path = [tuple(q) for q in rp["true_path"]]
                for pp in rp.get("pred_paths", []):
                    call("C20:add_predicted_path", mp.add_predicted_path, [tuple(q) for q in pp])
                    preds.append([tuple(q) for q in pp])
            if case.get("own_axes") and rnd == 0:
                # the caller hands over one of several axes of its own figure (not the one pyplot considers current)
                fig, axs = plt.subplots(1, 3)
                mine = axs[case["own_axes"] - 1]
                call("C20:plot", mp.plot, fig_ax=(fig, mine))
                require(mp.ax is mine, "C20:own-axes", "the plot was not drawn into the axes handed over")
            else:
                call("C20:plot", mp.plot)
            ax = mp.ax
            require(len(ax.images) >= 1, "C20:no-image", "nothing was drawn with imshow")
            _blocks_and_strips("C20", ax.images[0].get_array(), g, ul, values)
            # where the image sits in data coordinates: paths are drawn at (ul*(col+1/2), ul*(row+1/2)), so the centre of cell (row, col)
            # must fall on that cell's block when mapped back through the image's extent
            im = ax.images[0]
            left, right, bottom, top = (float(v) for v in im.get_extent())
            H, W = np.ma.getdata(im.get_array()).shape[:2]
            require(right != left and top != bottom, "C20:image-extent", f"degenerate extent {im.get_extent()}")
            for (rr, cc) in {(0, 0), (g["r"] - 1, g["c"] - 1), (0, g["c"] - 1), (g["r"] - 1, 0), (g["r"] // 2, g["c"] // 2)}:
                x, y = ul * (cc + 0.5), ul * (rr + 0.5)
                px = (x - left) / (right - left) * W
                py = (y - top) / (bottom - top) * H
                require(cc * ul + 1 <= px <= (cc + 1) * ul and rr * ul + 1 <= py <= (rr + 1) * ul, "C20:image-extent",
                        f"{g['r']}x{g['c']} maze, unit {ul}: the centre of cell ({rr},{cc}) at data ({x},{y}) maps to image pixel ({py:.1f},{px:.1f}), outside the cell's block; extent={im.get_extent()} image {H}x{W}")
            # true path: a line through the centres of exactly its cells, in order
            lines = [ln for ln in ax.lines]
            if true_path is not None:
                cand = [ln for ln in lines if ln.get_label() == "true path"]
                require(len(cand) == 1, "C20:true-path-missing", f"{len(cand)} lines labelled 'true path'")
                got = [(float(x), float(y)) for x, y in zip(*cand[0].get_data())]
                if kind == "targeted" and case.get("true_path") is None and not (rnd == 1 and case["replot"].get("true_path") is not None):
                    # the plot solves a targeted maze itself: any shortest route between the endpoints is a correct true path
                    cells = [(int(round(y / ul - 0.5)), int(round(x / ul - 0.5))) for x, y in got]
                    require(_xy(cells, ul) == got, "C20:true-path-wrong", f"line through {got[:5]}.. does not pass through cell centres")
                    prob = M.path_problems(g, M.adj(g), cells, start=true_path[0], end=true_path[-1], need_shortest=True, need_simple=True)
                    require(prob is None, "C20:true-path-wrong", f"solved path drawn for the targeted maze is not a shortest route: {prob}")
                    true_path = cells
                require(got == _xy(true_path, ul), "C20:true-path-wrong", f"line through {got[:5]}.., expected {_xy(true_path, ul)[:5]}.. (rows vertical, columns horizontal)")
                markers = [(ln.get_marker(), [(float(x), float(y)) for x, y in zip(*ln.get_data())]) for ln in lines if ln is not cand[0]]
                require(("o", [_xy(true_path, ul)[0]]) in markers and ("x", [_xy(true_path, ul)[-1]]) in markers, "C20:endpoint-markers",
                        f"start/end markers not at the first/last cell: {markers[:4]}")
            import matplotlib.quiver as mq

            quivers = [c for c in ax.collections if isinstance(c, mq.Quiver)]
            require(len(quivers) == len(preds), "C20:predicted-path-count", f"{len(quivers)} quiver artists for {len(preds)} predicted paths")
            for q, pp in zip(quivers, preds):
                X, Y, U, V = (np.asarray(v, dtype=float).ravel() for v in (q.X, q.Y, q.U, q.V))
                if getattr(q, "scale_units", None) == "xy" and getattr(q, "angles", None) == "xy" and getattr(q, "scale", None):
                    # arrows given in data units: the drawn arrow k runs from (X,Y) to (X,Y) + (U,V) / scale
                    U, V = U / float(q.scale), V / float(q.scale)
                pts = [(float(x), float(y)) for x, y in zip(X, Y)] + ([(float(X[-1] + U[-1]), float(Y[-1] + V[-1]))] if len(X) else [])
                ok = pts == _xy(pp, ul) and all(abs((X[k] + U[k]) - _xy(pp, ul)[k + 1][0]) < 1e-9 and abs((Y[k] + V[k]) - _xy(pp, ul)[k + 1][1]) < 1e-9 for k in range(len(X)))
                require(ok, "C20:predicted-path-wrong", f"arrows through {pts[:5]}.., expected {_xy(pp, ul)[:5]}..")
        # ASCII export (only for the maze's own drawing: a hand-added true path need not be a solution)
        for se, ss in ((True, True), (True, False)) if case.get("true_path") is None and not (case.get("replot") or {}).get("true_path") else ():
            txt = call("C20:to_ascii", mp.to_ascii, show_endpoints=se, show_solution=ss)
            if true_path is None:
                want = M.render_ascii(M.render(g, None, None, None, se, ss))
            else:
                want = M.render_ascii(M.render(g, true_path[0], true_path[-1], true_path, se, ss))
            require(txt == want, f"C20:to_ascii:({int(se)}{int(ss)})", f"kind={kind}: got\n{txt}\nexpected\n{want}")
    finally:
        plt.close("all")
    E = M.n_edges(g)
    allp = ([true_path] if true_path else []) + preds
    turn = any((a[0] - b[0], a[1] - b[1]) != (b[0] - c[0], b[1] - c[1]) for p in allp for a, b, c in zip(p, p[1:], p[2:]))
    labels = [kind, "values" if values is not None else "plain", f"preds:{len(preds)}", "square" if g["r"] == g["c"] else ("wide" if g["c"] > g["r"] else "tall")] + (["coordinate>=10"] if max(g["r"], g["c"]) >= 11 else [])
    return {"nt": 0 < E < len(M.lattice_edges(g["r"], g["c"])) and turn, "labels": labels}


@st.composite
def _case(draw, hi):
    n = draw(st.sampled_from(list(range(2, hi + 1)) + [10, 11, 12, 13]))
    if draw(st.integers(0, 2)) == 0:
        # wide and tall mazes
        nr, nc = draw(st.sampled_from([(2, 5), (5, 2), (3, 6), (6, 3), (2, 7), (4, 9), (9, 4), (3, 12), (12, 3), (1, 4), (4, 1)]))
        gg = draw(G.graphs(nr, nc) if draw(st.booleans()) else G.connected_graphs(nr, nc))
        aa = M.adj(gg)
        s0 = tuple(draw(G.cell_in(nr, nc)))
        far = sorted(M.bfs(aa, s0).items(), key=lambda kv: (-kv[1], kv[0]))[0][0]
        base = {"g": gg, "sol": [list(q) for q in M.shortest_path(aa, s0, far)]}
    else:
        base = draw(G.solved_case(lo=n, hi=n, square=True))
    g, sol = base["g"], base["sol"]
    n, ncols = g["r"], g["c"]
    case = {"g": g, "sol": sol, "kind": draw(st.sampled_from(["lattice", "targeted", "solved", "solved"])), "ul": draw(st.sampled_from([3, 4, 5, 7, 14, 16]) | st.integers(3, 16))}
    if draw(st.booleans()):
        vals = st.floats(-5, 5, allow_nan=False, allow_infinity=False).map(lambda x: round(x, 3)) | st.sampled_from([0.0, 1.0, -1.0, 0.93])
        case["values"] = [[draw(vals) for _ in range(ncols)] for _ in range(n)]
        case["hide_colorbar"] = draw(st.booleans())
    a = M.adj(g)

    def walk():
        u = (draw(st.integers(0, n - 1)), draw(st.integers(0, ncols - 1)))
        p = [u]
        for _ in range(draw(st.integers(1, 8))):
            nb = sorted(a[p[-1]])
            if not nb:
                break
            p.append(draw(st.sampled_from(nb)))
        if len(p) < 2:
            # an isolated cell: use any lattice neighbour so that the path has two points (paths need not follow connections)
            r0, c0 = p[0]
            if n >= 2:
                p.append((r0 + 1, c0) if r0 + 1 < n else (r0 - 1, c0))
            else:
                p.append((r0, c0 + 1) if c0 + 1 < ncols else (r0, c0 - 1))
        if draw(st.booleans()):
            p = p[::-1]
        return [list(q) for q in p]

    case["pred_paths"] = [walk() for _ in range(draw(st.sampled_from([0, 1, 2, 2, 3, 7, 9])))]
    if draw(st.integers(0, 3)) == 0:
        case["true_path"] = walk()
    case["as_array"] = draw(st.booleans())
    if case["as_array"] and draw(st.booleans()):
        case["reuse_buffers"] = True
    if draw(st.integers(0, 3)) == 0:
        case["rejected_values"] = draw(st.sampled_from([[1, 1], [1, 0], [0, 1], [2, 2]]))
    if draw(st.integers(0, 3)) == 0:
        case["own_axes"] = draw(st.sampled_from([1, 2, 2, 3]))
    if draw(st.integers(0, 3)) == 0:
        rp = {}
        if draw(st.booleans()) and (case["kind"] != "lattice" or case.get("true_path") is not None):
            rp["true_path"] = walk()
        rp["pred_paths"] = [walk() for _ in range(draw(st.integers(0 if rp else 1, 2)))]
        case["replot"] = rp
    return case


@st.composite
def _twin_case(draw):
    from mzverif.props import C13

    tw = draw(C13._twins())
    ul = draw(st.sampled_from([3, 5, 14]))

    def one(shape):
        r, c = shape
        g = {"r": r, "c": c, "cl": tw["cl"]}
        a = M.adj(g)
        s0 = tuple(draw(G.cell_in(r, c)))
        far = sorted(M.bfs(a, s0).items(), key=lambda kv: (-kv[1], kv[0]))[0][0]
        return {"g": g, "sol": [list(q) for q in M.shortest_path(a, s0, far)], "kind": draw(st.sampled_from(["lattice", "solved", "targeted"])), "ul": ul,
                "pred_paths": [], "as_array": False}

    main = one(tw["order"][1])
    main["pre"] = one(tw["order"][0])
    return main


def subs(tier: str):
    q = tier == "quick"
    return [Sub("plots", check, "hypothesis", strategy=lambda: _case(8), examples=200 if q else 4000),
            Sub("same-flags-other-shape", check, "hypothesis", strategy=_twin_case, examples=10 if q else 300)]
