#!/venv/bin/python
"""copy a confirmed seeded change into /verif/seeded/<name>/ and record what was run. usage: keep_seeded.py <eval.json> <name>"""
import json, os, shutil, sys
ev = json.load(open(sys.argv[1])); name = sys.argv[2]
src = ev["src"]; dst = os.path.join(os.path.dirname(os.path.dirname(os.path.abspath(__file__))), "seeded", name)
os.makedirs(dst, exist_ok=True)
for f in ("patch.diff", "demo.py"):
    shutil.copy(os.path.join(src, f), os.path.join(dst, f))
meta = json.load(open(os.path.join(src, "meta.json")))
checks = {k[6:]: v for k, v in ev.items() if k.startswith("check_")}
out = {
    "property": ev["prop"],
    "summary": meta.get("summary"),
    "needs_to_manifest": meta.get("needs_to_manifest"),
    "author": "independent sub-agent given only the property text and a scratch worktree",
    "confirmed_by_me": {
        "patch_applies_to_repo_head": ev.get("applies"),
        "demo_exit_on_changed_tree": ev.get("demo_mutant_rc"),
        "demo_exit_on_clean_tree": ev.get("demo_clean_rc"),
        "repository_test_suite_with_change": ev.get("suite_tail"),
        "commands": [
            "git -C /repo worktree add --detach <wt> HEAD && git -C <wt> apply patch.diff",
            "PYTHONPATH=<wt> /venv/bin/python demo.py   # non-zero expected", "PYTHONPATH=/repo /venv/bin/python demo.py   # zero expected",
            "cd <wt> && PYTHONPATH=<wt> /venv/bin/python -m pytest -q -p no:cacheprovider --timeout=900 -x tests",
            "VERIF_REPO=<wt> ./check <ID> --tier quick", "git -C /repo worktree remove --force <wt>",
        ],
    },
    "detected_by": {p: {"exit": c["rc"], "seconds": c["s"], "signatures": c["signatures"]} for p, c in checks.items()},
    "note": ev.get("note"),
    "sub_agent_ran": meta.get("ran"),
}
json.dump(out, open(os.path.join(dst, "meta.json"), "w"), indent=1)
print(dst, {p: c["rc"] for p, c in checks.items()})
