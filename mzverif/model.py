"""Reference models. Nothing in here calls the library under test.

A graph case is ``{"r": int, "c": int, "cl": "<bitstring of length 2*r*c>"}`` with bit order
``[d][i][j]`` (d=0: (i,j)-(i+1,j) "down"; d=1: (i,j)-(i,j+1) "right").
"""

from __future__ import annotations

import hashlib
import itertools
from collections import deque

import numpy as np


# ----------------------------------------------------------------------------------------------
# encoding
# ----------------------------------------------------------------------------------------------


def g_make(r: int, c: int, bits) -> dict:
    return {"r": int(r), "c": int(c), "cl": "".join("1" if b else "0" for b in bits)}


def g_from_cl(cl: np.ndarray) -> dict:
    assert cl.ndim == 3 and cl.shape[0] == 2
    return g_make(cl.shape[1], cl.shape[2], cl.reshape(-1).tolist())


def g_bits(g: dict) -> list[int]:
    return [1 if ch == "1" else 0 for ch in g["cl"]]


def g_cl(g: dict) -> np.ndarray:
    """fresh numpy connection structure for handing to the library"""
    r, c = g["r"], g["c"]
    arr = np.array(g_bits(g), dtype=np.bool_).reshape(2, r, c)
    return arr


def bit_index(r: int, c: int, d: int, i: int, j: int) -> int:
    return d * r * c + i * c + j


def lattice_edges(r: int, c: int) -> list[tuple[tuple[int, int], tuple[int, int]]]:
    """all lattice edges as (lesser cell, greater cell)"""
    out = []
    for i in range(r):
        for j in range(c):
            if i + 1 < r:
                out.append(((i, j), (i + 1, j)))
            if j + 1 < c:
                out.append(((i, j), (i, j + 1)))
    return out


def edge_bit(r: int, c: int, a, b) -> int:
    """bit index of the lattice edge {a,b}"""
    (i, j), (k, l) = sorted([tuple(a), tuple(b)])
    if k == i + 1 and l == j:
        return bit_index(r, c, 0, i, j)
    if k == i and l == j + 1:
        return bit_index(r, c, 1, i, j)
    raise ValueError("not a lattice edge")


def clear_boundary(r: int, c: int, bits: list[int]) -> list[int]:
    bits = list(bits)
    for j in range(c):
        bits[bit_index(r, c, 0, r - 1, j)] = 0
    for i in range(r):
        bits[bit_index(r, c, 1, i, c - 1)] = 0
    return bits


def boundary_bits_set(g: dict) -> list[tuple[int, int, int]]:
    r, c = g["r"], g["c"]
    bits = g_bits(g)
    out = []
    for j in range(c):
        if bits[bit_index(r, c, 0, r - 1, j)]:
            out.append((0, r - 1, j))
    for i in range(r):
        if bits[bit_index(r, c, 1, i, c - 1)]:
            out.append((1, i, c - 1))
    return out


# ----------------------------------------------------------------------------------------------
# graph model
# ----------------------------------------------------------------------------------------------


def edges_of(g: dict) -> list[tuple[tuple[int, int], tuple[int, int]]]:
    """connections present, as (lesser, greater) cell pairs; boundary bits (which leave the grid) ignored"""
    r, c = g["r"], g["c"]
    bits = g_bits(g)
    out = []
    for i in range(r):
        for j in range(c):
            if i + 1 < r and bits[bit_index(r, c, 0, i, j)]:
                out.append(((i, j), (i + 1, j)))
            if j + 1 < c and bits[bit_index(r, c, 1, i, j)]:
                out.append(((i, j), (i, j + 1)))
    return out


def adj(g: dict) -> dict[tuple[int, int], list[tuple[int, int]]]:
    r, c = g["r"], g["c"]
    a: dict = {(i, j): [] for i in range(r) for j in range(c)}
    for u, v in edges_of(g):
        a[u].append(v)
        a[v].append(u)
    return a


def cells(g: dict) -> list[tuple[int, int]]:
    return [(i, j) for i in range(g["r"]) for j in range(g["c"])]


def bfs(a: dict, start) -> dict[tuple[int, int], int]:
    start = tuple(start)
    dist = {start: 0}
    dq = deque([start])
    while dq:
        u = dq.popleft()
        for v in a[u]:
            if v not in dist:
                dist[v] = dist[u] + 1
                dq.append(v)
    return dist


def component(a: dict, start) -> set:
    return set(bfs(a, start).keys())


def components(a: dict) -> list[set]:
    seen: set = set()
    out = []
    for u in a:
        if u not in seen:
            comp = component(a, u)
            seen |= comp
            out.append(comp)
    return out


def n_edges(g: dict) -> int:
    return len(edges_of(g))


def is_spanning_tree(g: dict) -> bool:
    a = adj(g)
    n = g["r"] * g["c"]
    return len(component(a, (0, 0))) == n and n_edges(g) == n - 1


def comp_has_cycle(g: dict, comp: set) -> bool:
    e = sum(1 for u, v in edges_of(g) if u in comp)
    return e > len(comp) - 1


def count_shortest_paths(a: dict, s, e) -> int:
    s, e = tuple(s), tuple(e)
    dist = bfs(a, s)
    if e not in dist:
        return 0
    cnt = {s: 1}
    order = sorted(dist, key=lambda u: dist[u])
    for u in order:
        for v in a[u]:
            if dist.get(v) == dist[u] + 1:
                cnt[v] = cnt.get(v, 0) + cnt[u]
    return cnt.get(e, 0)


def all_shortest_paths(a: dict, s, e, cap: int = 8) -> list[list[tuple[int, int]]]:
    s, e = tuple(s), tuple(e)
    dist_e = bfs(a, e)
    if s not in dist_e:
        return []
    out: list = []

    def rec(path):
        if len(out) >= cap:
            return
        u = path[-1]
        if u == e:
            out.append(list(path))
            return
        for v in sorted(a[u]):
            if dist_e.get(v) == dist_e[u] - 1:
                path.append(v)
                rec(path)
                path.pop()

    rec([s])
    return out


def shortest_path(a: dict, s, e) -> list[tuple[int, int]] | None:
    ps = all_shortest_paths(a, s, e, cap=1)
    return ps[0] if ps else None


def path_problems(g: dict, a: dict, path, start=None, end=None, need_shortest=True, need_simple=True) -> str | None:
    """returns None when `path` is a valid (simple, shortest) route, else a description"""
    r, c = g["r"], g["c"]
    p = [tuple(int(x) for x in q) for q in path]
    if len(p) == 0:
        return "empty path"
    for q in p:
        if len(q) != 2 or not (0 <= q[0] < r and 0 <= q[1] < c):
            return f"cell {q} outside {r}x{c} grid"
    if start is not None and p[0] != tuple(start):
        return f"starts at {p[0]}, expected {tuple(start)}"
    if end is not None and p[-1] != tuple(end):
        return f"ends at {p[-1]}, expected {tuple(end)}"
    for u, v in zip(p[:-1], p[1:]):
        if v not in a[u]:
            return f"step {u}->{v} is not a connection"
    if need_simple and len(set(p)) != len(p):
        return "visits a cell twice"
    if need_shortest:
        d = bfs(a, p[0]).get(p[-1])
        if d is None or len(p) - 1 != d:
            return f"length {len(p) - 1} but the minimum is {d}"
    return None


# ----------------------------------------------------------------------------------------------
# spanning-tree enumeration (for C19)
# ----------------------------------------------------------------------------------------------


def enumerate_spanning_trees(r: int, c: int) -> list[str]:
    """all spanning trees of the r x c lattice as canonical bit strings"""
    E = lattice_edges(r, c)
    n = r * c
    out = []
    for subset in itertools.combinations(range(len(E)), n - 1):
        parent = list(range(n))

        def find(x):
            while parent[x] != x:
                parent[x] = parent[parent[x]]
                x = parent[x]
            return x

        ok = True
        for k in subset:
            (i, j), (p, q) = E[k]
            a_, b_ = find(i * c + j), find(p * c + q)
            if a_ == b_:
                ok = False
                break
            parent[a_] = b_
        if ok:
            bits = [0] * (2 * r * c)
            for k in subset:
                u, v = E[k]
                bits[edge_bit(r, c, u, v)] = 1
            out.append("".join(map(str, bits)))
    return out


# ----------------------------------------------------------------------------------------------
# fingerprints
# ----------------------------------------------------------------------------------------------


def maze_fingerprint(m) -> str:
    """byte-level fingerprint of a library maze object (reads attributes only)"""
    h = hashlib.sha256()
    cl = np.asarray(m.connection_list)
    h.update(type(m).__name__.encode())
    h.update(repr(tuple(cl.shape)).encode())
    h.update(np.ascontiguousarray(cl.astype(np.bool_)).tobytes())
    sol = getattr(m, "solution", None)
    if sol is not None:
        s = np.asarray(sol).astype(np.int64)
        h.update(repr(tuple(s.shape)).encode())
        h.update(np.ascontiguousarray(s).tobytes())
    for nm in ("start_pos", "end_pos"):
        v = getattr(m, nm, None)
        if v is not None:
            h.update(np.ascontiguousarray(np.asarray(v).astype(np.int64)).tobytes())
    return h.hexdigest()


def dataset_fingerprint(mazes) -> str:
    h = hashlib.sha256()
    for m in mazes:
        h.update(maze_fingerprint(m).encode())
    return h.hexdigest()


# ----------------------------------------------------------------------------------------------
# renderer (C10 / C17 / C20)
# ----------------------------------------------------------------------------------------------

WALL = (0, 0, 0)
OPEN = (255, 255, 255)
START = (0, 255, 0)
END = (255, 0, 0)
PATH = (0, 0, 255)
CHARS = {WALL: "#", OPEN: " ", START: "S", END: "E", PATH: "X"}


def render(g: dict, start=None, end=None, solution=None, show_endpoints=True, show_solution=True) -> list[list[tuple]]:
    """(2r+1) x (2c+1) picture from the definition, as nested lists of rgb tuples"""
    r, c = g["r"], g["c"]
    H, W = 2 * r + 1, 2 * c + 1
    img = [[WALL for _ in range(W)] for _ in range(H)]
    for i in range(r):
        for j in range(c):
            img[2 * i + 1][2 * j + 1] = OPEN
    for (i, j), (k, l) in edges_of(g):
        img[i + k + 1][j + l + 1] = OPEN
    if solution is not None and show_solution:
        sol = [tuple(q) for q in solution]
        for i, j in sol:
            img[2 * i + 1][2 * j + 1] = PATH
        for (i, j), (k, l) in zip(sol[:-1], sol[1:]):
            img[i + k + 1][j + l + 1] = PATH
    if show_endpoints and start is not None and end is not None:
        img[2 * start[0] + 1][2 * start[1] + 1] = START
        img[2 * end[0] + 1][2 * end[1] + 1] = END
    return img


def render_ascii(img: list[list[tuple]]) -> str:
    return "\n".join("".join(CHARS[px] for px in row) for row in img)


def img_to_lists(arr: np.ndarray) -> list[list[tuple]]:
    return [[tuple(int(x) for x in px) for px in row] for row in arr.tolist()]


def first_pixel_diff(a: list[list[tuple]], b: list[list[tuple]]) -> str | None:
    if len(a) != len(b) or any(len(x) != len(y) for x, y in zip(a, b)):
        return f"size {len(a)}x{len(a[0]) if a else 0} vs {len(b)}x{len(b[0]) if b else 0}"
    for i, (ra, rb) in enumerate(zip(a, b)):
        for j, (pa, pb) in enumerate(zip(ra, rb)):
            if tuple(pa) != tuple(pb):
                return f"pixel ({i},{j}): got {tuple(pa)} expected {tuple(pb)}"
    return None
