#!/bin/sh
# usage: benign_eval.sh <src_dir> <PROP>  - a property-PRESERVING change: demo must exit 0 with the change, the check must stay quiet (exit 0)
src="$(realpath "$1")"; prop="$2"
wt="$(mktemp -d /tmp/mzben-XXXXXX)"; rmdir "$wt"
git -C /repo worktree add -q --detach "$wt" HEAD && git -C "$wt" apply "$src/patch.diff" || { echo "{\"src\": \"$src\", \"applies\": false}"; git -C /repo worktree remove --force "$wt" 2>/dev/null; exit 0; }
if [ -n "$BENIGN_SKIP_DEMO" ]; then demo=0; else
( cd "$wt" && PYTHONPATH="$wt" MPLBACKEND=Agg timeout 1800 /venv/bin/python -W ignore "$src/demo.py" $(cat "$src/demo_args" 2>/dev/null) >/dev/null 2>&1 ); demo=$?
fi
out="$(cd "$(dirname "$0")/.." && VERIF_REPO="$wt" ./check "$prop" --tier quick 2>&1)"; rc=$?
sigs="$(echo "$out" | grep 'signature=' | sed 's/.*signature=//' | sort -u | head -6 | tr '\n' ',' )"
msg="$(echo "$out" | grep -A1 'signature=' | grep -v 'signature=' | head -2 | tr '\n' ' ' | cut -c1-300 | sed 's/"/'"'"'/g')"
echo "{\"src\": \"$src\", \"prop\": \"$prop\", \"applies\": true, \"demo_rc\": $demo, \"check_rc\": $rc, \"signatures\": \"$sigs\", \"msg\": \"$msg\"}"
git -C /repo worktree remove --force "$wt"
