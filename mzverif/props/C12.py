"""C12 - generation metadata tells the truth about reachability."""

from __future__ import annotations

import numpy as np
from hypothesis import strategies as st

from mzverif import core
from mzverif import gen as G
from mzverif import lib as L
from mzverif import model as M
from mzverif.core import Sub, Violation, call, require

ID = "C12"
LEVEL = "exploration"
TECHNIQUE = "Hypothesis over generator calls biased to constrained DFS / sparse percolation + corridor-like grids beyond 128 with start cells in every container; oracle = component, tree and degree facts recomputed from the raw connection bits by an independent graph model; endpoint draws under options followed by a re-verification of the metadata"
RULE = (
    "case = (generator, r, c, kwargs, numpy seed, python seed), strategy biased towards accessible_cells small/fractional, small "
    "max_tree_depth, do_forks=False, randomized_stack and percolation with small p. Non-trivial = the maze is not fully connected "
    "and the recorded component has >= 2 cells; distinct by canonical case digest."
)
ASSUMPTIONS = [
    "requested accessible cells: None -> r*c, float f -> int(f*r*c), int -> itself (as documented)",
    "'no depth or fork limit applies' means max_tree_depth is left at its default and do_forks is True",
    "random endpoints are only drawn on grids with r,c >= 2 and a recorded component of >= 2 cells (generate_random_path documents ValueError otherwise)",
]


def _requested(kw: dict, rc: int) -> int:
    a = kw.get("accessible_cells")
    if a is None:
        return rc
    if isinstance(a, float):
        return int(a * rc)
    return int(a)


def check(case: dict):
    r, c, name, kw = case["r"], case["c"], case["gen"], case.get("kw", {})
    rc = r * c
    form = case.get("start_form")
    if form and "start_coord" in kw:
        # the start cell handed over in the caller's own container; an ndarray is reused by the caller afterwards (sweep over start cells)
        from maze_dataset.generation.generators import GENERATORS_MAP

        L.seed_globals(case["np_seed"], case["py_seed"])
        mine = tuple(kw["start_coord"]) if form == "tuple" else np.array(kw["start_coord"], dtype=np.int8 if form == "ndarray-int8" else None)
        m = call(f"C12:{name}", GENERATORS_MAP[name], np.array([r, c]), **{**kw, "start_coord": mine})
        if form == "ndarray-reused":
            mine += 1
    else:
        m = call(f"C12:{name}", L.run_generator, case)
    meta = m.generation_meta
    require(isinstance(meta, dict), f"C12:{name}:no-meta", f"generation_meta is {type(meta)}")
    g = L.g_of(m)
    a = M.adj(g)
    comps = M.components(a)
    fully = len(comps) == 1
    labels = [name] + [f"kw:{k}" for k in kw] + ([f"start:{form}"] if form and "start_coord" in kw else [])
    flag = bool(meta.get("fully_connected", False))
    vc = meta.get("visited_cells", None)
    V = None
    if vc is not None:
        V = set(L.as_cells(np.array(list(vc)))) if len(vc) > 0 else set()
        sc = meta.get("start_coord", None)
        require(sc is not None, f"C12:{name}:visited-without-start", "visited_cells recorded without start_coord")
        sc = tuple(int(x) for x in np.asarray(sc).reshape(-1))
        comp = M.component(a, sc)
        require(
            V == comp,
            f"C12:{name}:visited-cells-not-component",
            f"{r}x{c} {kw}: recorded {len(V)} visited cells, component of start {sc} has {len(comp)}; "
            f"missing={sorted(comp - V)[:5]} extra={sorted(V - comp)[:5]} bits={g['cl']}",
        )
    if flag:
        require(fully, f"C12:{name}:flag-fully-connected-but-not", f"{r}x{c} {kw}: {len(comps)} components; bits={g['cl']}")
    else:
        require(vc is not None, f"C12:{name}:not-flagged-and-no-visited-cells", f"{r}x{c} {kw}: meta keys {sorted(meta)}")
    if name in ("gen_dfs", "gen_prim"):
        require(flag == fully, f"C12:{name}:flag-mismatch", f"{r}x{c} {kw}: flag={flag} model fully connected={fully}; bits={g['cl']}")
        # constrained depth-first generator: tree over exactly the visited cells
        require(V is not None, f"C12:{name}:no-visited-cells", "depth-first generator did not record visited cells")
        E = M.edges_of(g)
        inside = all(u in V and v in V for u, v in E)
        require(inside, f"C12:{name}:edge-outside-visited", f"{r}x{c} {kw}: a connection touches an unvisited cell; bits={g['cl']}")
        require(len(E) == len(V) - 1, f"C12:{name}:not-a-tree", f"{r}x{c} {kw}: {len(E)} connections over {len(V)} visited cells; bits={g['cl']}")
        req = max(1, _requested(kw, rc))
        require(len(V) <= req, f"C12:{name}:too-many-cells", f"{r}x{c} {kw}: {len(V)} visited cells, requested {req}")
        if kw.get("max_tree_depth") is None and kw.get("do_forks", True):
            labels.append("exact-count")
            require(len(V) == min(req, rc), f"C12:{name}:wrong-cell-count", f"{r}x{c} {kw}: {len(V)} visited cells, expected {min(req, rc)}")
        if kw.get("do_forks", True) is False:
            labels.append("no-forks")
            deg = max((len(a[u]) for u in V), default=0)
            require(deg <= 2, f"C12:{name}:fork-without-forks", f"{r}x{c} {kw}: a cell has degree {deg}; bits={g['cl']}")
    # consequence: random endpoints are mutually reachable
    compsize = len(V) if (V is not None and not flag) else rc
    if r >= 2 and c >= 2 and compsize >= 2:
        labels.append("endpoints-drawn")
        # plain draws must succeed; draws under endpoint options (a pure function of the case) may be refused in the documented way
        # when the options leave nothing, but whatever comes back joins two mutually reachable cells
        d = core.digest(case)
        region = sorted(V) if (V is not None and not flag) else M.cells(g)
        some = [list(region[(d >> 7) % len(region)])]
        optsets = [{}, {"endpoints_not_equal": True, "deadend_start": True}, {}, {"deadend_end": True, "endpoints_not_equal": bool(d & 1)},
                   {"allowed_start": some, "endpoints_not_equal": True}, {"allowed_end": some}, {}]
        for k in range(5):
            opts = optsets[(d + k * (1 + (d >> 3) % 3)) % len(optsets)] if k else {}
            try:
                p = m.generate_random_path(**opts)
            except Exception as ex:  # noqa: BLE001
                if opts and isinstance(ex, ValueError):
                    continue
                raise Violation(
                    f"C12:{name}:random-path-raises:{type(ex).__name__}",
                    f"{r}x{c} {kw}: generate_random_path({opts}) raised {type(ex).__name__}: {str(ex)[:120]}; bits={g['cl']}",
                )
            p = L.as_cells(p)
            require(p[-1] in M.component(a, p[0]), f"C12:{name}:endpoints-not-connected", f"{p[0]} and {p[-1]} are in different components")
            if opts:
                labels.append("endpoints-drawn-with-options")
        # the metadata still tells the truth after the maze has been used
        meta2 = m.generation_meta
        require(isinstance(meta2, dict), f"C12:{name}:no-meta", "generation_meta disappeared after endpoints were drawn")
        vc2 = meta2.get("visited_cells", None)
        if vc is not None:
            V2 = (set(L.as_cells(np.array(list(vc2)))) if len(vc2) > 0 else set()) if vc2 is not None else None
            require(V2 == V, f"C12:{name}:visited-cells-changed-by-use", f"{r}x{c} {kw}: after drawing endpoints the recorded visited cells are "
                    f"{None if V2 is None else len(V2)} cells (were {len(V)}); missing={sorted(V - (V2 or set()))[:5]} bits={g['cl']}")
        require(bool(meta2.get("fully_connected", False)) == flag, f"C12:{name}:flag-changed-by-use", "fully_connected flag changed after endpoints were drawn")
        require(np.array_equal(np.asarray(m.connection_list), M.g_cl(g)), f"C12:{name}:maze-changed-by-use", "connection structure changed after endpoints were drawn")
    nt = (not fully) and V is not None and len(V) >= 2
    if not fully:
        labels.append("not-fully-connected")
    return {"nt": nt, "labels": labels}


@st.composite
def _biased(draw, hi):
    name = draw(st.sampled_from(["gen_dfs", "gen_dfs", "gen_prim", "gen_percolation", "gen_dfs_percolation", "gen_wilson"]))
    r, c = draw(G.shapes(2, hi))
    rc = r * c
    kw = {}
    cell = st.tuples(st.integers(0, r - 1), st.integers(0, c - 1)).map(list)
    if name in ("gen_dfs", "gen_prim"):
        mode = draw(st.sampled_from(["count", "count", "frac", "none"]))
        if mode == "count":
            kw["accessible_cells"] = draw(st.integers(0, rc + 2))
        elif mode == "frac":
            kw["accessible_cells"] = draw(st.sampled_from([0.0, 0.1, 0.2, 0.3, 0.5, 0.8, 1.0]) | st.floats(0, 1, allow_nan=False))
        dm = draw(st.sampled_from(["none", "none", "int", "frac"]))
        if dm == "int":
            kw["max_tree_depth"] = draw(st.integers(0, 2 * (r + c)))
        elif dm == "frac":
            kw["max_tree_depth"] = draw(st.sampled_from([0.0, 0.25, 0.5, 1.0]) | st.floats(0, 1, allow_nan=False))
        if draw(st.booleans()):
            kw["do_forks"] = draw(st.booleans())
        if name == "gen_dfs" and draw(st.booleans()):
            kw["randomized_stack"] = draw(st.booleans())
        if draw(st.booleans()):
            kw["start_coord"] = draw(cell)
    elif name == "gen_percolation":
        kw["p"] = draw(st.sampled_from([0.0, 0.05, 0.1, 0.2, 0.3, 0.4, 0.5, 0.6, 1.0]) | st.floats(0, 1, allow_nan=False))
        if draw(st.booleans()):
            kw["start_coord"] = draw(cell)
    elif name == "gen_dfs_percolation":
        kw["p"] = draw(st.sampled_from([0.0, 0.05, 0.1, 0.2, 0.4, 1.0]) | st.floats(0, 1, allow_nan=False))
        if draw(st.booleans()):
            kw["accessible_cells"] = draw(st.integers(0, rc + 2) | st.sampled_from([rc // 2, rc // 2, rc // 4, rc - 1, rc]))
        if draw(st.booleans()):
            kw["max_tree_depth"] = draw(st.integers(0, 2 * (r + c)))
        if draw(st.booleans()):
            kw["start_coord"] = draw(cell)
    out = {"gen": name, "r": r, "c": c, "kw": kw,
           "np_seed": draw(st.integers(0, 2**32 - 1)), "py_seed": draw(st.integers(0, 2**32 - 1))}
    if "start_coord" in kw:
        out["start_form"] = draw(st.sampled_from([None, "tuple", "ndarray", "ndarray-reused", "ndarray-int8", "ndarray-int8"]))
    else:
        form = draw(st.sampled_from(["int64", "int64", "int8", "int8", "int16", "int32"] + ([] if name == "gen_wilson" else ["tuple", "list"])))
        if form != "int64":
            out["shape_form"] = form
    return out


@st.composite
def _elongated(draw, longs):
    """grids with a side beyond 128 cells (coordinates next to and past the width of a signed byte), a few cells wide; the start cell is
    given in every container a caller may use - an int8 array only when its coordinates fit one"""
    n = draw(st.sampled_from(longs))
    k = draw(st.sampled_from([1, 2, 2, 3]))
    r, c = (k, n) if draw(st.booleans()) else (n, k)
    name = draw(st.sampled_from(["gen_dfs", "gen_dfs", "gen_prim", "gen_percolation", "gen_dfs_percolation"]))
    kw: dict = {}
    if name in ("gen_dfs", "gen_prim"):
        acc = draw(st.sampled_from(["none", "none", "all", "most", "frac"]))
        if acc != "none":
            kw["accessible_cells"] = {"all": r * c, "most": r * c - draw(st.integers(1, 5)), "frac": 0.9}[acc]
    else:
        kw["p"] = draw(st.sampled_from([1.0, 1.0, 0.9, 0.7] if name == "gen_percolation" else [0.0, 0.3, 1.0]))
    near = lambda m: draw(st.sampled_from([q for q in (0, 100, 120, 126, 127, 128, 129, m - 1) if q < m]))  # noqa: E731
    if draw(st.integers(0, 3)) != 0:
        kw["start_coord"] = [near(r), near(c)]
    out = {"gen": name, "r": r, "c": c, "kw": kw, "np_seed": draw(st.integers(0, 2**32 - 1)), "py_seed": draw(st.integers(0, 2**32 - 1))}
    if "start_coord" in kw:
        forms = [None, "tuple", "ndarray"] + (["ndarray-int8", "ndarray-int8", "ndarray-int8"] if max(kw["start_coord"]) <= 127 else [])
        out["start_form"] = draw(st.sampled_from(forms))
    return out


def subs(tier: str):
    q = tier == "quick"
    return [
        Sub("biased", check, "hypothesis", strategy=lambda: _biased(10 if q else 25), examples=800 if q else 8000),
        Sub("elongated-grids-beyond-128", check, "hypothesis", strategy=lambda: _elongated([130, 150, 129] if q else [130, 150, 129, 200, 257, 300]), examples=12 if q else 150),
        Sub("generic", check, "hypothesis", strategy=lambda: G.generator_call(lo=1, hi=10 if q else 25), examples=300 if q else 3000),
    ]
