"""C14 - token vocabularies and token-id codecs are fixed, duplicate-free, invertible."""

from __future__ import annotations

import hashlib
import json
import os

from hypothesis import strategies as st

from mzverif import core
from mzverif.core import Sub, Violation, call, require

ID = "C14"
LEVEL = "exploration"
TECHNIQUE = "exhaustive: all 4096 positions against a frozen golden list and an independently reconstructed layout, corner-first property for every n <= 50 and (order itself + legacy prefix / row-major properties) for sizes up to 256 (thorough 300), legacy vocabularies x 3 modes x sizes 1..50, all prefix pairs; Hypothesis: codec round trips (re-asked after the caller edited earlier results), construction-order and in-place resize histories, unknown tokens / ids (above and below the vocabulary), every single-edit near miss of every vocabulary token; unknown tokens / ids through the list and the joined form of both codecs; the same check on several cases at once, one thread each (interleavings sampled)"
RULE = (
    "position case = vocabulary index i (all 4096); legacy case = (mode, n) for n in 1..50, also sequences of such constructions in one process in arbitrary order; prefix case = (n, m), n<m<=50; sequence "
    "case = (vocabulary, list of ids) run through decode->encode and encode->decode as list and as joined string; unknown case = a "
    "token outside the vocabulary or an id >= len. Non-trivial = position inside the coordinate block, n >= 2, sequences of length >= 2."
)
ASSUMPTIONS = [
    "the frozen golden list /verif/golden/vocab.json (sha256 pinned) is the published layout: 'a token's id never changes' is a regression claim",
    "'unknown id' means an integer >= len(vocabulary) or < -len(vocabulary); ids in [-len, -1] resolve through Python's from-the-end indexing and are not asserted on",
]

GOLDEN_SHA = "748c8e615684069cd77747e4cd5f800e59e9c13a543f68ae9a7e2f5c39991aa9"
SPECIALS = ["<ADJLIST_START>", "<ADJLIST_END>", "<TARGET_START>", "<TARGET_END>", "<ORIGIN_START>", "<ORIGIN_END>",
            "<PATH_START>", "<PATH_END>", "<-->", ";", "<PADDING>"]
MODES = ["AOTP_UT_rasterized", "AOTP_UT_uniform", "AOTP_CTT_indexed"]

_cache: dict = {}


def golden() -> list[str]:
    if "g" not in _cache:
        with open(os.path.join(core.VERIF_DIR, "golden", "vocab.json")) as f:
            g = json.load(f)
        if hashlib.sha256(json.dumps(g).encode()).hexdigest() != GOLDEN_SHA:
            raise RuntimeError("golden vocabulary file was modified")
        _cache["g"] = g
    return _cache["g"]


def layout() -> dict[int, str]:
    """the published layout, rebuilt without the library: anchors and blocks (coordinate *order* comes from the golden list)"""
    if "l" in _cache:
        return _cache["l"]
    L: dict[int, str] = {}
    for i, t in enumerate(SPECIALS):
        L[i] = t
    misc = ["(", ",", ")", "=", "||", ":", "THEN", "-", "<UNK>"]
    misc += [f"TARGET_{ch}" for ch in "ABCDEFGHIJKLMNOPQRSTUVWXYZ"]
    misc += [f"TARGET_{d}" for d in ["NORTH", "SOUTH", "EAST", "WEST", "NORTHEAST", "NORTHWEST", "SOUTHEAST", "SOUTHWEST", "CENTER"]]
    misc += ["NORTH", "SOUTH", "EAST", "WEST", "FORWARD", "BACKWARD", "LEFT", "RIGHT", "STAY"]
    for k, t in enumerate(misc):
        L[11 + k] = t
    assert 11 + len(misc) == 64
    for i in range(256):
        L[64 + i] = f"+{i}"
    for i in range(128):
        L[320 + i] = f"{i}"
    for k, i in enumerate(range(-256, 0)):
        L[448 + k] = f"{i}"
    for k, t in enumerate(["STEP", "ADJ_GROUP", "&", "<XX>"]):
        L[704 + k] = t
    for i in range(708, 1596):
        L[i] = f"<RESERVE_{i}>"
    _cache["l"] = L
    return L


def check_position(case: dict):
    from maze_dataset.constants import VOCAB_LIST, VOCAB_TOKEN_TO_INDEX
    from maze_dataset.tokenization import MazeTokenizerModular

    i = case["i"]
    require(len(VOCAB_LIST) == 4096, "C14:modular:size", f"vocabulary has {len(VOCAB_LIST)} tokens")
    tok = VOCAB_LIST[i]
    g = golden()
    require(tok == g[i], "C14:modular:token-moved", f"position {i}: {tok!r}, published {g[i]!r}")
    lay = layout()
    if i in lay:
        require(tok == lay[i], "C14:modular:layout", f"position {i}: {tok!r}, layout says {lay[i]!r}")
    else:
        require(tok.startswith("(") and tok.endswith(")") and tok.count(",") == 1, "C14:modular:layout-coord", f"position {i}: {tok!r} is not a coordinate token")
    require(VOCAB_TOKEN_TO_INDEX.get(tok) == i, "C14:modular:map-not-inverse", f"map[{tok!r}] = {VOCAB_TOKEN_TO_INDEX.get(tok)} != {i}")
    enc = call("C14:modular:encode", MazeTokenizerModular.encode, [tok])
    require(list(enc) == [i], "C14:modular:encode", f"encode([{tok!r}]) = {enc}")
    dec = call("C14:modular:decode", MazeTokenizerModular.decode, [i])
    require(list(dec) == [tok], "C14:modular:decode", f"decode([{i}]) = {dec}")
    if i == 0:
        require(len(set(VOCAB_LIST)) == 4096, "C14:modular:duplicates", "duplicate tokens in the vocabulary")
        t = MazeTokenizerModular()
        require(list(t.token_arr) == list(VOCAB_LIST) and t.tokenizer_map == VOCAB_TOKEN_TO_INDEX and t.vocab_size == 4096
                and t.padding_token_index == 10, "C14:modular:tokenizer-views", "token_arr/tokenizer_map/vocab_size/padding index disagree with the vocabulary")
    return {"nt": i >= 1596, "labels": ["coord" if i >= 1596 else "fixed-block"]}


def check_corner_first(case: dict):
    """for every n <= 50 the first n^2 coordinate tokens are exactly the cells of the n x n grid"""
    from maze_dataset.constants import VOCAB_LIST

    n = case["n"]
    got = set(VOCAB_LIST[1596 : 1596 + n * n])
    want = {f"({i},{j})" for i in range(n) for j in range(n)}
    require(got == want, "C14:modular:corner-first", f"n={n}: first n^2 coordinate tokens are not the n x n grid; off: {sorted(got ^ want)[:6]}")
    return {"nt": n >= 2, "labels": []}


def _legacy(mode: str, n):
    from maze_dataset.tokenization import MazeTokenizer, TokenizationMode

    return MazeTokenizer(tokenization_mode=TokenizationMode[mode], max_grid_size=n)


def _expected_legacy(mode: str, n: int) -> list[str] | None:
    if mode == "AOTP_UT_rasterized":
        return SPECIALS + [f"({i},{j})" for i in range(n) for j in range(n)]
    if mode == "AOTP_CTT_indexed":
        return SPECIALS + ["(", ",", ")"] + [str(i) for i in range(n)]
    return None


def check_legacy(case: dict):
    mode, n = case["mode"], case["n"]
    t = _legacy(mode, n)
    arr = call(f"C14:{mode}:token_arr", lambda: list(t.token_arr))
    require(len(arr) == len(set(arr)), f"C14:{mode}:duplicates", f"n={n}: duplicate tokens")
    tm = call(f"C14:{mode}:tokenizer_map", lambda: dict(t.tokenizer_map))
    require(tm == {tok: i for i, tok in enumerate(arr)}, f"C14:{mode}:map-not-inverse", f"n={n}")
    require(t.vocab_size == len(arr), f"C14:{mode}:vocab_size", f"{t.vocab_size} vs {len(arr)}")
    require(arr[: len(SPECIALS)] == SPECIALS, f"C14:{mode}:specials", f"n={n}: {arr[:11]}")
    exp = _expected_legacy(mode, n)
    if exp is not None:
        require(arr == exp, f"C14:{mode}:order", f"n={n}: first difference at {next((i for i, (x, y) in enumerate(zip(arr, exp)) if x != y), min(len(arr), len(exp)))}")
    else:
        require(set(arr[11:]) == {f"({i},{j})" for i in range(n) for j in range(n)} and len(arr) == 11 + n * n,
                f"C14:{mode}:coords", f"n={n}: coordinate tokens are not the n x n grid")
    # codecs are mutual inverses over the whole vocabulary
    ids = list(range(len(arr)))
    require(list(t.decode(ids)) == arr, f"C14:{mode}:decode", f"n={n}")
    require(list(t.encode(arr)) == ids, f"C14:{mode}:encode", f"n={n}")
    require(t.padding_token_index == 10, f"C14:{mode}:padding", f"{t.padding_token_index}")
    return {"nt": n >= 2, "labels": [mode]}


def check_legacy_sequence(case: dict):
    """vocabularies must not depend on which other tokenizers were built before in the same process"""
    for k, (mode, n) in enumerate(case["seq"]):
        if case.get("touch") and k == case["touch"] % len(case["seq"]):
            # other public helpers of the vocabulary containers are used in between (they must not change what the containers hold)
            from maze_dataset.constants import SPECIAL_TOKENS, VOCAB

            for cont in (SPECIAL_TOKENS, VOCAB):
                n0 = len(cont)
                for nm in ("get_abbrev",):
                    fn = getattr(cont, nm, None)
                    if fn is not None:
                        try:
                            fn(SPECIAL_TOKENS.PATH_START)
                        except Exception:  # noqa: BLE001 - the helper's own contract is not under test
                            pass
                list(cont.keys()), list(cont.values())
                require(len(cont) == n0 and all(isinstance(v, str) for v in cont.values()), "C14:container-changed-by-use",
                        f"{type(cont).__name__} holds {len(cont)} entries (was {n0}) / non-token values after its helpers were used")
        check_legacy({"mode": mode, "n": n})
    if case.get("resize"):
        # one tokenizer object re-used for another grid size: the size is reassigned and the cached views are cleared (what clear_cache
        # is for); every view must then agree with a tokenizer freshly built for the new size
        mode, n0 = case["seq"][0]
        t = _legacy(mode, n0)
        list(t.token_arr), dict(t.tokenizer_map), t.vocab_size
        for n1 in case["resize"]:
            t.max_grid_size = n1
            call(f"C14:{mode}:clear_cache", t.clear_cache)
            fresh = _legacy(mode, n1)
            arr = list(t.token_arr)
            require(arr == list(fresh.token_arr), f"C14:{mode}:resized:token_arr", f"after resizing {n0} -> {n1} the token list differs from a fresh tokenizer's")
            require(dict(t.tokenizer_map) == {tok: i for i, tok in enumerate(arr)}, f"C14:{mode}:resized:map-not-inverse",
                    f"after resizing {n0} -> {n1} (clear_cache called) the token-to-id map is not the inverse of the token list: {len(t.tokenizer_map)} entries vs {len(arr)} tokens")
            require(t.vocab_size == len(arr), f"C14:{mode}:resized:vocab_size", f"{t.vocab_size} vs {len(arr)}")
            require(list(t.encode(arr)) == list(range(len(arr))) and list(t.decode(list(range(len(arr))))) == arr, f"C14:{mode}:resized:codec", "codecs not inverse after resizing")
    ns = [n for _, n in case["seq"]]
    return {"nt": len(ns) >= 2 and any(a > b for a, b in zip(ns, ns[1:])), "labels": ["descending" if any(a > b for a, b in zip(ns, ns[1:])) else "ascending"]}


def check_prefix(case: dict):
    n, m = case["n"], case["m"]
    a = list(_legacy("AOTP_UT_uniform", n).token_arr)
    b = list(_legacy("AOTP_UT_uniform", m).token_arr)
    require(b[: len(a)] == a, "C14:AOTP_UT_uniform:prefix", f"vocabulary for n={n} is not a prefix of the one for m={m}")
    return {"nt": n >= 2, "labels": []}


def check_prefix_large(case: dict):
    """grid sizes beyond the modular vocabulary's 50: the corner-first order itself (first k^2 cells = the k x k grid for every k <= m)
    and the prefix property of the legacy corner-first vocabulary"""
    from maze_dataset.utils import corner_first_ndindex

    m = case["m"]
    order = [tuple(int(x) for x in q) for q in call("C14:corner_first_ndindex", corner_first_ndindex, m)]
    require(len(order) == m * m and len(set(order)) == m * m, "C14:corner-first:not-a-permutation", f"m={m}: {len(order)} entries, {len(set(order))} distinct")
    seen = set()
    k = 0
    for idx, q in enumerate(order):
        seen.add(q)
        if idx + 1 == (k + 1) * (k + 1):
            k += 1
            require(seen == {(i, j) for i in range(k) for j in range(k)}, "C14:corner-first:large", f"m={m}: the first {k}^2 cells are not the {k} x {k} grid (e.g. {sorted(seen - {(i, j) for i in range(k) for j in range(k)})[:3]})")
    b = list(_legacy("AOTP_UT_uniform", m).token_arr)
    for n in case["ns"]:
        a = list(_legacy("AOTP_UT_uniform", n).token_arr)
        require(b[: len(a)] == a, "C14:AOTP_UT_uniform:prefix", f"vocabulary for n={n} is not a prefix of the one for m={m}; first coordinate tokens of m: {b[11:15]}")
    r = list(_legacy("AOTP_UT_rasterized", m).token_arr)
    require(r[11:] == [f"({i},{j})" for i in range(m) for j in range(m)], "C14:AOTP_UT_rasterized:order", f"m={m}: not row-major")
    return {"nt": True, "labels": [f"m>={m // 50 * 50}"]}


def _prefix_large_cases(sizes):
    def cases(shard, nshards):
        for k, m in enumerate(sizes):
            if k % nshards == shard:
                yield {"m": m, "ns": sorted({n for n in (1, 2, 7, 50, 51, 73, 74, m - 1) if 1 <= n < m})}

    return cases


def _codec(vocab):
    from maze_dataset.tokenization import MazeTokenizerModular

    if vocab == "modular":
        return MazeTokenizerModular(), golden()
    mode, n = vocab
    t = _legacy(mode, n)
    return t, list(t.token_arr)


def check_seq(case: dict):
    t, arr = _codec(case["vocab"] if case["vocab"] == "modular" else tuple(case["vocab"]))
    nm = case["vocab"] if case["vocab"] == "modular" else case["vocab"][0]
    ids = [i % len(arr) for i in case["ids"]]
    toks = [arr[i] for i in ids]
    dec = call(f"C14:{nm}:decode", t.decode, ids)
    require(list(dec) == toks, f"C14:{nm}:decode-seq", f"decode({ids[:8]}..) = {list(dec)[:8]}.., expected {toks[:8]}..")
    enc = call(f"C14:{nm}:encode", t.encode, toks)
    require(list(enc) == ids, f"C14:{nm}:encode-seq", f"encode({toks[:8]}..) = {list(enc)[:8]}.., expected {ids[:8]}..")
    joined = call(f"C14:{nm}:decode-joined", t.decode, ids, True)
    require(joined == " ".join(toks), f"C14:{nm}:decode-joined", f"{joined[:60]!r}")
    enc2 = call(f"C14:{nm}:encode-joined", t.encode, joined)
    require(list(enc2) == ids, f"C14:{nm}:encode-joined", f"encode of joined string = {list(enc2)[:8]}..")
    # the caller pads / truncates what it got and asks again: the codecs must answer as before
    for res in (dec, enc, enc2):
        if isinstance(res, list):
            res.extend(res[:2])
            del res[:1]
    dec_b = call(f"C14:{nm}:decode", t.decode, ids)
    enc_b = call(f"C14:{nm}:encode", t.encode, toks)
    enc2_b = call(f"C14:{nm}:encode-joined", t.encode, joined)
    require(list(dec_b) == toks and list(enc_b) == ids and list(enc2_b) == ids, f"C14:{nm}:codec-depends-on-earlier-results",
            "a second call (after the caller edited the first results in place) answers differently")
    return {"nt": len(ids) >= 2, "labels": [nm]}


def check_unknown(case: dict):
    from maze_dataset.tokenization.maze_tokenizer import TokenError

    t, arr = _codec(case["vocab"] if case["vocab"] == "modular" else tuple(case["vocab"]))
    nm = case["vocab"] if case["vocab"] == "modular" else case["vocab"][0]
    prefix = [arr[i % len(arr)] for i in case.get("prefix_ids", [])]
    if "token" in case:
        tok = case["token"]
        if tok in arr or not tok or tok.split() != [tok]:
            raise core.Discard()
        # the text handed over as a list of tokens and as one space-joined string
        for form, arg in (("list", prefix + [tok]), ("joined", " ".join(prefix + [tok]))):
            try:
                res = t.encode(arg)
            except TokenError:
                continue
            except Exception as ex:  # noqa: BLE001
                raise Violation(f"C14:{nm}:unknown-token-raises:{type(ex).__name__}", f"token {tok!r} ({form}): {type(ex).__name__} instead of TokenError")
            raise Violation(f"C14:{nm}:unknown-token-accepted", f"encode({tok!r}) ({form}) returned {res}")
        return {"nt": True, "labels": [nm, "unknown-token"]}
    # ids at or beyond the end of the vocabulary, and ids so negative that not even Python's from-the-end indexing can resolve them
    idx = len(arr) + case["over"] if "over" in case else -len(arr) - 1 - case["under"]
    known = [i % len(arr) for i in case.get("prefix_ids", [])]
    cut = case.get("at", len(known)) % (len(known) + 1)
    # decoded to a list of tokens and to one space-joined string
    for joined in (False, True):
        try:
            res = t.decode(known[:cut] + [idx] + known[cut:], joined)
        except TokenError:
            continue
        except Exception as ex:  # noqa: BLE001
            raise Violation(f"C14:{nm}:unknown-id-raises:{type(ex).__name__}", f"id {idx} (vocab {len(arr)}, joined={joined}): {type(ex).__name__} instead of TokenError")
        raise Violation(f"C14:{nm}:unknown-id-accepted", f"decode([{idx}], joined={joined}) returned {res}")
    return {"nt": True, "labels": [nm, "unknown-id"]}


# ------------------------------------------------------------------------------------------


def _positions(shard, nshards):
    for i in range(4096):
        if i % nshards == shard:
            yield {"i": i}


def _corner(shard, nshards):
    for n in range(1, 51):
        if n % nshards == shard:
            yield {"n": n}


def _legacy_cases(shard, nshards):
    k = 0
    for mode in MODES:
        for n in range(1, 51):
            k += 1
            if k % nshards == shard:
                yield {"mode": mode, "n": n}


def _prefix_cases(shard, nshards):
    k = 0
    for n in range(1, 51):
        for m in range(n + 1, 51):
            k += 1
            if k % nshards == shard:
                yield {"n": n, "m": m}


def _vocab_st():
    return st.one_of(st.just("modular"), st.tuples(st.sampled_from(MODES), st.integers(1, 50)).map(list))


@st.composite
def _seq(draw):
    return {"vocab": draw(_vocab_st()), "ids": draw(st.lists(st.integers(0, 4095), min_size=0, max_size=40))}


NEAR_MISSES = ["(50,0)", "(0,50)", "(50,50)", "+256", "128", "-257", "-0", "<adjlist_start>", "<ADJLIST_START", "(0, 0)", "(1,2", "1,2)",
               "<RESERVE_707>", "<RESERVE_1596>", "TARGET_", "north", "<XX", "<->", ";;", "STEP ", "(-1,0)", "(00,1)", "+00", "0.0"]


def _variants(tok: str):
    """strings one small edit away from a vocabulary token (what a typo, another spelling convention or a truncated stream produces)"""
    out = {tok[1:], tok[:-1], tok.lower(), tok.upper(), tok + tok[-1], tok[0] + tok, tok.replace("_", ""), tok.replace("_", "-"), "<" + tok + ">",
           tok.strip("<>"), tok.strip("()"), tok.replace(",", ";"), tok.replace(",", "."), tok.replace("+", "-"), tok.replace("-", "+")}
    if tok.startswith("<") and tok.endswith(">") and "_" in tok:
        # initials, as in <ADJLIST_START> -> <A_S>, and single words of the name
        words = tok[1:-1].split("_")
        out |= {"<" + "_".join(w[:1] for w in words) + ">", "<" + "".join(w[:1] for w in words) + ">", "<" + words[0] + ">", "<" + words[-1] + ">"}
    return {v for v in out if v and v.split() == [v]}


def _near_miss_cases(shard, nshards):
    """every vocabulary token, every variant that is not itself in the vocabulary; plus the names and short forms the library itself
    uses for its special tokens elsewhere (container field names, abbreviations)"""
    g = golden()
    known = set(g)
    extra = set()
    try:
        from maze_dataset.constants import SPECIAL_TOKENS

        for key in list(SPECIAL_TOKENS):
            extra.add(str(key))
            try:
                extra.add(str(SPECIAL_TOKENS.get_abbrev(key)))
            except Exception:  # noqa: BLE001
                pass
    except Exception:  # noqa: BLE001
        pass
    k = 0
    for i, tok in enumerate(g):
        for v in sorted(_variants(tok) | (extra if i == 0 else set())):
            if v in known:
                continue
            k += 1
            if k % nshards == shard:
                yield {"vocab": "modular" if k % 4 else [MODES[k % len(MODES)], 5], "token": v, "prefix_ids": [i] if k % 3 == 0 else []}


@st.composite
def _unknown(draw):
    case = {"vocab": draw(_vocab_st()), "prefix_ids": draw(st.lists(st.integers(0, 4095), max_size=4))}
    if draw(st.booleans()):
        case["token"] = draw(st.sampled_from(NEAR_MISSES) | st.text(alphabet=st.characters(min_codepoint=33, max_codepoint=126), min_size=1, max_size=8))
    else:
        if draw(st.integers(0, 2)) == 0:
            case["under"] = draw(st.sampled_from([0, 1, 2, 100, 4096, 10**6]) | st.integers(0, 5000))
        else:
            case["over"] = draw(st.sampled_from([0, 1, 2, 100, 10**6]) | st.integers(0, 5000))
        case["at"] = draw(st.integers(0, 4))
    return case


def subs(tier: str):
    q = tier == "quick"
    return [
        Sub("positions", check_position, "exhaustive", cases=_positions, exhaustive_flag=True),
        Sub("corner-first", check_corner_first, "exhaustive", cases=_corner, exhaustive_flag=True),
        Sub("legacy-vocab", check_legacy, "exhaustive", cases=_legacy_cases, exhaustive_flag=True),
        Sub("uniform-prefix", check_prefix, "exhaustive", cases=_prefix_cases, exhaustive_flag=True),
        Sub("corner-first-beyond-50", check_prefix_large, "exhaustive", cases=_prefix_large_cases([51, 64, 73, 74, 75, 90, 100, 127, 128, 129, 150, 181, 182, 200, 256] if q else list(range(51, 301)))),
        Sub("legacy-construction-order", check_legacy_sequence, "hypothesis",
            strategy=lambda: st.fixed_dictionaries({"seq": st.lists(st.tuples(st.sampled_from(MODES), st.integers(1, 50)).map(list), min_size=2, max_size=6),
                                                    "resize": st.lists(st.integers(1, 30), max_size=3), "touch": st.sampled_from([None, 0, 1, 2])}),
            examples=80 if q else 3000),
        Sub("sequences", check_seq, "hypothesis", strategy=_seq, examples=250 if q else 15000),
        Sub("concurrent-threads", core.threaded(check_seq), "hypothesis", strategy=core.threaded_strategy(_seq), examples=10 if q else 300, ambient=False),
        Sub("near-miss-tokens", check_unknown, "exhaustive", cases=_near_miss_cases),
        Sub("unknown", check_unknown, "hypothesis", strategy=_unknown, examples=150 if q else 8000),
    ]
