"""C06 - modular tokenization is a faithful, decodable encoding of the maze."""

from __future__ import annotations

import itertools
import json
import os
import random

from hypothesis import strategies as st

from mzverif import core
from mzverif import gen as G
from mzverif import lib as L
from mzverif import model as M
from mzverif.core import Sub, call, require

ID = "C06"
LEVEL = "exploration"
TECHNIQUE = "per-region exhaustive enumeration (9 coordinate x 216 adjacency and 9 x 1008 path configurations) on a pool of mazes (incl. corridors whose fork-to-fork steps span 130..255 moves) + pairwise-covering and uniformly sampled full configurations; oracle = independent token-stream decoder configured only from the parameter tuple; the same check on several cases at once, one thread each (interleavings sampled)"
RULE = (
    "case = (tokenizer parameter dict, maze = bits + solution + kind). The harness builds the tokenizer from the parameters; the "
    "decoder checks delimiters, vocabulary membership, the adjacency multiset (subset x orientation x connection/wall flag), origin, "
    "target and the path region step by step. Non-trivial = maze with >= 1 connection and >= 1 wall edge and, for solved mazes, a "
    "solution of >= 3 cells containing a turn; distinct by (parameters, maze) digest."
)
ASSUMPTIONS = [
    "only the 5,878,656 valid configurations are generated (pre=False adjacency tokenizers, Ungrouped edges, Singles/Forks step sizes, unique step tokenizers, not (Distance,) alone)",
    "the order of adjacency entries and the orientation chosen by the random permuter are not constrained",
    "Distance tokens are only exercised for steps of <= 255 cells (the +0..+255 vocabulary block)",
]

COORDS = [{"kind": "UT"}] + [{"kind": "CTT", "pre": a, "intra": b, "post": c} for a in (False, True) for b in (False, True) for c in (False, True)]
ADJS = [
    {"cls": cls, "post": post, "shuffle_d0": sh, "ordinal": o, "subset": sub, "permuter": perm}
    for cls in ("coord", "cardinal") for post in (False, True) for sh in (False, True) for o in (0, 1, 2)
    for sub in ("all", "conn", "walls") for perm in ("sorted", "random", "both")
]
STEP_KINDS = ["coord", "cardinal", "relative", "distance"]
STEP_PERMS = [list(p) for k in (1, 2, 3, 4) for p in itertools.permutations(STEP_KINDS, k) if list(p) != ["distance"]]
PATHS = [
    {"step_size": ss, "steps": sp, "pre": a, "intra": b, "post": c}
    for ss in ("singles", "forks") for sp in STEP_PERMS for a in (False, True) for b in (False, True) for c in (False, True)
]
assert len(COORDS) == 9 and len(ADJS) == 216 and len(PATHS) == 1008
DEFAULT_ADJ = {"cls": "coord", "post": True, "shuffle_d0": True, "ordinal": 1, "subset": "conn", "permuter": "random"}
DEFAULT_PATH = {"step_size": "singles", "steps": ["coord"], "pre": False, "intra": False, "post": False}

_vocab: set = set()


def vocab() -> set:
    if not _vocab:
        with open(os.path.join(core.VERIF_DIR, "golden", "vocab.json")) as f:
            _vocab.update(json.load(f))
    return _vocab


def check(case: dict):
    params, mz = case["params"], case["maze"]
    g, sol, kind = mz["g"], mz["sol"], mz["kind"]
    tok = call("C06:construct", _tokenizer, json.dumps(params, sort_keys=True))
    m = L.make_kind(kind, g, sol, dtype=L.provenance(case, g))
    if kind == "solved" and core.digest(case) % 3 == 0:
        # a caller looked at the solution's forking points first and kept editing what it got
        for flag in (True, False):
            core.scribble(call("C06:forking_points", m.get_solution_forking_points, always_include_endpoints=flag))
    toks = call("C06:to_tokens", tok.to_tokens, m)
    require(isinstance(toks, list) and all(isinstance(t, str) for t in toks), "C06:token-types", "to_tokens did not return a list of strings")
    bad = [t for t in toks if t not in vocab()]
    require(not bad, "C06:token-outside-vocabulary", f"{bad[:5]} not in the vocabulary; params={params}")
    prob = M.check_stream(params, toks, kind, g, sol)
    require(prob is None, f"C06:{_which(prob)}", f"{prob}; kind={kind} grid={g['r']} sol={sol[:6]}{'..' if len(sol) > 6 else ''} params={json.dumps(params)}")
    if core.digest(case) % 4 == 0:
        # the caller empties the list it was given and asks again
        toks.clear()
        toks3 = call("C06:to_tokens", tok.to_tokens, m)
        prob3 = M.check_stream(params, toks3, kind, g, sol)
        require(prob3 is None, f"C06:{_which(prob3)}", f"second call after the caller emptied the first result: {prob3}; params={json.dumps(params)}")
    if case.get("via_maze"):
        # the same through the maze's own entry point
        toks2 = call("C06:as_tokens", m.as_tokens, tok)
        prob2 = M.check_stream(params, toks2, kind, g, sol)
        require(prob2 is None, f"C06:as_tokens:{_which(prob2)}", f"{prob2}")
    E = M.n_edges(g)
    turn = any((a[0] - b[0], a[1] - b[1]) != (b[0] - c[0], b[1] - c[1]) for a, b, c in zip(sol, sol[1:], sol[2:]))
    nt = 0 < E < len(M.lattice_edges(g["r"], g["c"])) and (kind != "solved" or (len(sol) >= 3 and turn))
    labels = [kind, params["seq"], "coord:" + params["coord"]["kind"], "adj:" + params["adj"]["cls"], "subset:" + params["adj"]["subset"],
              "perm:" + params["adj"]["permuter"], "steps:" + params["path"]["step_size"]]
    if g["r"] >= 11:
        labels.append("multi-digit")
    return {"nt": nt, "labels": labels}


from functools import lru_cache  # noqa: E402


@lru_cache(maxsize=64)
def _tokenizer(params_json: str):
    tok = L.make_tokenizer(json.loads(params_json))
    if not tok.is_valid():
        raise RuntimeError(f"harness built an invalid tokenizer: {params_json}")
    return tok


def _which(prob: str | None) -> str:
    p = prob or ""
    for key, name in (("adjacency", "adjacency"), ("origin", "origin"), ("target", "target"), ("path region", "path"), ("delimiter", "regions"), ("tokens ", "regions")):
        if key in p:
            return name + "-region"
    return "adjacency-region"


# ---- maze pool ---------------------------------------------------------------------------


def build_pool(seed_val: int, sizes, per_size: int):
    """deterministic pool of mazes of the three kinds (trees and cyclic, turning / 1-cell / 2-cell solutions)"""
    pool = []
    for n in sizes:
        cases = core.collect_examples(G.solved_case(lo=n, hi=n, square=True), per_size * 3, core.derive_seed(seed_val, "C06-pool", n))
        # prefer long, turning solutions first, keep one short one
        cases.sort(key=lambda c: -len(c["sol"]))
        picked = cases[: per_size - 1] + [min(cases, key=lambda c: len(c["sol"]))]
        for k, c in enumerate(picked):
            pool.append({"g": c["g"], "sol": c["sol"], "kind": "solved"})
    return pool


def _region_cases(pool, region):
    def cases(shard, nshards):
        k = 0
        for coord in COORDS:
            for part in (ADJS if region == "adj" else PATHS):
                k += 1
                if k % nshards != shard:
                    continue
                for seq in (("AOTP", "AOP") if region == "path" and (k // nshards) % 4 == 0 else ("AOTP",)):
                    params = {"seq": seq, "coord": coord, "adj": part if region == "adj" else DEFAULT_ADJ,
                              "path": DEFAULT_PATH if region == "adj" else part}
                    if seq == "AOTP":
                        params["target"] = {"post": (k % 2 == 0)}
                    for j, mz in enumerate(pool):
                        if region == "adj":
                            # the adjacency region exists for all three kinds: rotate them over the pool
                            mz = dict(mz, kind=["solved", "targeted", "lattice"][(j + k) % 3])
                        yield {"params": params, "maze": mz}

    return cases


def _corridor_cases(corridors):
    """every path configuration (coordinate tokenizers rotated over them) on corridor mazes; the fork-to-fork step size sees one or two
    very long steps there, the single-step size hundreds of steps"""
    def cases(shard, nshards):
        k = 0
        for part in PATHS:
            for j, mz in enumerate(corridors):
                k += 1
                if k % nshards != shard:
                    continue
                if part["step_size"] == "singles" and (k // nshards) % 6:
                    continue
                yield {"params": {"seq": "AOTP" if k % 3 else "AOP", "coord": COORDS[k % len(COORDS)], "adj": DEFAULT_ADJ, "path": part, **({"target": {"post": k % 2 == 0}} if k % 3 else {})}, "maze": mz}

    return cases


# ---- full configurations -------------------------------------------------------------------

AXES = {
    "seq": ["AOTP", "AOP"], "coord": list(range(9)), "adj.cls": ["coord", "cardinal"], "adj.post": [False, True], "adj.shuffle_d0": [False, True],
    "adj.ordinal": [0, 1, 2], "adj.subset": ["all", "conn", "walls"], "adj.permuter": ["sorted", "random", "both"], "target.post": [False, True],
    "path.step_size": ["singles", "forks"], "path.steps": list(range(len(STEP_PERMS))), "path.pre": [False, True], "path.intra": [False, True], "path.post": [False, True],
}
AXIS_NAMES = list(AXES)


def params_from_tuple(t: dict) -> dict:
    p = {
        "seq": t["seq"], "coord": COORDS[t["coord"]],
        "adj": {"cls": t["adj.cls"], "post": t["adj.post"], "shuffle_d0": t["adj.shuffle_d0"], "ordinal": t["adj.ordinal"], "subset": t["adj.subset"], "permuter": t["adj.permuter"]},
        "path": {"step_size": t["path.step_size"], "steps": STEP_PERMS[t["path.steps"]], "pre": t["path.pre"], "intra": t["path.intra"], "post": t["path.post"]},
    }
    if t["seq"] == "AOTP":
        p["target"] = {"post": t["target.post"]}
    return p


def pairwise_set(seed_val: int = 0):
    """greedy covering array over the 14 parameter axes: every pair of values of two different axes occurs in some tuple"""
    rnd = random.Random(seed_val)
    pairs = set()
    for a, b in itertools.combinations(AXIS_NAMES, 2):
        for va in AXES[a]:
            for vb in AXES[b]:
                if "target.post" in (a, b):
                    # target.post only exists for AOTP
                    if (a == "seq" and va == "AOP") or (b == "seq" and vb == "AOP"):
                        continue
                pairs.add((a, va, b, vb))
    total = len(pairs)
    out = []
    while pairs:
        best, best_gain = None, -1
        seed_pair = next(iter(pairs))
        for _ in range(40):
            t = {ax: rnd.choice(vals) for ax, vals in AXES.items()}
            t[seed_pair[0]], t[seed_pair[2]] = seed_pair[1], seed_pair[3]
            gain = sum(1 for a, b in itertools.combinations(AXIS_NAMES, 2) if (a, t[a], b, t[b]) in pairs)
            if gain > best_gain:
                best, best_gain = t, gain
        out.append(best)
        for a, b in itertools.combinations(AXIS_NAMES, 2):
            pairs.discard((a, best[a], b, best[b]))
    return out, total


def _pairwise_cases(pool):
    def cases(shard, nshards):
        tuples, _ = pairwise_set(0)
        for k, t in enumerate(tuples):
            if k % nshards != shard:
                continue
            params = params_from_tuple(t)
            for j in range(3):
                yield {"params": params, "maze": pool[(k * 3 + j) % len(pool)]}

    return cases


@st.composite
def _uniform(draw, hi):
    t = {ax: draw(st.sampled_from(vals)) for ax, vals in AXES.items()}
    n = draw(st.sampled_from(list(range(2, hi + 1)) + [11, 12]))
    base = draw(G.solved_case(lo=n, hi=n, square=True))
    return {"params": params_from_tuple(t), "maze": {"g": base["g"], "sol": base["sol"], "kind": draw(st.sampled_from(["solved", "solved", "targeted", "lattice"]))}, "via_maze": True}


def subs(tier: str):
    q = tier == "quick"
    pool = build_pool(core.SEED, [2, 3, 4, 5, 6, 8, 12] if q else [2, 3, 4, 5, 6, 7, 8, 10, 12, 16, 20, 33, 50], 2 if q else 4)
    # quick: every configuration of a region on a few mazes; thorough: on the whole pool
    pool_adj = [pool[i] for i in (0, 2, 4, 6, 10, 12)] if q else pool
    pool_path = [pool[i] for i in (2, 6, 12)] if q else pool
    # one-cell and two-cell solutions (start == end; a single step) for every path tokenizer
    short = [{"g": pool[4]["g"], "sol": pool[4]["sol"][:1], "kind": "solved"}, {"g": pool[6]["g"], "sol": pool[6]["sol"][:2], "kind": "solved"}]
    pool_path = pool_path + short
    # long fork-free stretches: one step of the fork-to-fork step size then spans a hundred and more moves (the vocabulary provides
    # distances up to 255), here along a corridor snaking through the whole grid, entered at either end or somewhere inside
    from mzverif.props.C05 import _serpentine

    corridors = []
    for n, length, start in ([(12, 144, 0), (16, 256, 0), (12, 131, 7)] if q else [(12, 144, 0), (12, 131, 7), (16, 256, 0), (16, 129, 100), (14, 196, 0), (20, 256, 57), (50, 256, 1200)]):
        g_, sol_ = _serpentine(n, length, start)
        corridors.append({"g": g_, "sol": sol_ if len(corridors) % 2 == 0 else sol_[::-1], "kind": "solved"})
    tuples, total_pairs = pairwise_set(0)
    return [
        Sub("adjacency-region-exhaustive", check, "exhaustive", cases=_region_cases(pool_adj, "adj"), exhaustive_flag=True),
        Sub("path-region-exhaustive", check, "exhaustive", cases=_region_cases(pool_path, "path"), exhaustive_flag=True),
        Sub("long-corridors", check, "exhaustive", cases=_corridor_cases(corridors)),
        Sub(f"pairwise-covering-{len(tuples)}-tuples-{total_pairs}-pairs", check, "exhaustive", cases=_pairwise_cases(pool), exhaustive_flag=False),
        Sub("uniform-full-configurations", check, "hypothesis", strategy=lambda: _uniform(8 if q else 14), examples=40 if q else 1500),
        Sub("concurrent-threads", core.threaded(check), "hypothesis", strategy=core.threaded_strategy(lambda: _uniform(6 if q else 10)), examples=4 if q else 100, ambient=False),
    ]
