"""Shared runner: cases are plain JSON data, checks are pure functions of a case.

A property module (mzverif/props/Cxx.py) exposes

    ID, LEVEL, RULE, ASSUMPTIONS, TECHNIQUE
    def subs(tier) -> list[Sub]

and every Sub has a top-level ``check(case) -> info | None`` that raises ``Violation`` when the
oracle is contradicted, ``Discard`` when a documented precondition rejects the case, and returns
``{"nt": bool, "labels": [...]}`` otherwise.  Anything else that escapes is a *harness error*
(exit 2), never a violation.
"""

from __future__ import annotations

import concurrent.futures
import hashlib
import json
import multiprocessing
import os
import shutil
import sys
import tempfile
import time
import traceback
from collections import Counter
from dataclasses import dataclass, field
from typing import Any, Callable, Iterable

VERIF_DIR = os.path.dirname(os.path.dirname(os.path.abspath(__file__)))
SEED = int(os.environ.get("VERIF_SEED", "1") or "1")
NPROC = int(os.environ.get("VERIF_NPROC", "0") or "0") or min(16, os.cpu_count() or 1)
MAX_FAIL_PER_SIG = 3


class Violation(Exception):
    """the oracle is contradicted by the code under test"""

    def __init__(self, sig: str, msg: str = ""):
        super().__init__(f"{sig}: {msg}")
        self.sig = sig
        self.msg = msg


class Discard(Exception):
    """documented precondition not met by this case (counted, not a violation)"""


def require(cond: bool, sig: str, msg: str = "") -> None:
    if not cond:
        raise Violation(sig, msg)


def call(sig: str, fn: Callable, *args, allowed: tuple = (), **kwargs):
    """call code under test; an exception that is not in `allowed` is a violation `sig:raises:<Type>`"""
    try:
        return fn(*args, **kwargs)
    except allowed:
        raise
    except (Violation, Discard):
        raise
    except Exception as e:  # noqa: BLE001 - the whole point
        raise Violation(f"{sig}:raises:{type(e).__name__}", _short(e)) from e


def raised_in_library(e: BaseException) -> bool:
    """exception bucketing by the innermost package frame: walking the traceback from the raise point outwards and skipping third-party /
    standard-library frames, is the first frame that belongs to either party a frame of the code under test (maze_dataset) or a frame
    of the harness (mzverif)? An exception raised in the library while it is handling an input the harness generated is a violation
    (the property cannot hold on an input that crashes); one raised by the harness' own code is a harness error (exit 2)."""
    lib_root = os.path.join(os.path.realpath(os.environ.get("VERIF_REPO", "/repo")), "maze_dataset") + os.sep
    frames = []
    tb = e.__traceback__
    while tb is not None:
        frames.append(os.path.realpath(tb.tb_frame.f_code.co_filename))
        tb = tb.tb_next
    for fn in reversed(frames):
        if fn.startswith(lib_root):
            return True
        if (os.sep + "mzverif" + os.sep) in fn:
            return False
    return False


def as_violation(e: BaseException, prop: str):
    """Violation for an exception that escaped from library code at a call site the check did not wrap"""
    tb = e.__traceback__
    where = ""
    lib_root = os.path.join(os.path.realpath(os.environ.get("VERIF_REPO", "/repo")), "maze_dataset") + os.sep
    while tb is not None:
        fn = os.path.realpath(tb.tb_frame.f_code.co_filename)
        if fn.startswith(lib_root):
            where = f"{os.path.basename(fn)}:{tb.tb_frame.f_code.co_name}"
        tb = tb.tb_next
    return Violation(f"{prop}:library-raises:{type(e).__name__}", f"{where}: {_short(e, 200)}")


DOCUMENTED_GENERATION_ERRORS = ("no valid start or end positions", "larger sample than population", "Cannot take a larger sample", "high <= 0")


def discard_if_unsatisfiable(e: BaseException, sig: str):
    """generation may legitimately refuse a configuration whose endpoint options cannot be met (documented ValueError messages):
    those cases are discarded and counted. Any other ValueError from a legitimate request is a violation, not a discard."""
    if isinstance(e, ValueError) and (any(s in str(e) for s in DOCUMENTED_GENERATION_ERRORS) or _raised_while_drawing_endpoints(e)):
        raise Discard() from e
    raise Violation(f"{sig}:raises:{type(e).__name__}", _short(e)) from e


def _raised_while_drawing_endpoints(e: BaseException) -> bool:
    """the wording of the refusal is not part of any property: a ValueError whose innermost library frame is the endpoint-drawing
    step itself (not the solver or anything else it calls inside the library) is the documented "cannot place endpoints" outcome"""
    lib_root = os.path.join(os.path.realpath(os.environ.get("VERIF_REPO", "/repo")), "maze_dataset") + os.sep
    inner = None
    tb = e.__traceback__
    while tb is not None:
        if os.path.realpath(tb.tb_frame.f_code.co_filename).startswith(lib_root):
            inner = tb.tb_frame.f_code.co_name
        tb = tb.tb_next
    return inner == "generate_random_path"


def scribble(x) -> None:
    """overwrite a result the library handed out (a caller may do what it likes with it): later answers must not depend on it"""
    import numpy as np

    try:
        if isinstance(x, np.ndarray):
            if x.flags.writeable and x.size:
                x[...] = np.array(1, dtype=x.dtype) if x.dtype == np.bool_ else (x * 0 + 101).astype(x.dtype)
        elif isinstance(x, list):
            x.clear()
        elif isinstance(x, tuple):
            for y in x:
                scribble(y)
        elif hasattr(x, "numpy") and hasattr(x, "fill_"):
            x.fill_(113)
    except (ValueError, TypeError, RuntimeError):
        pass


def _short(e: BaseException, n: int = 300) -> str:
    s = f"{type(e).__name__}: {e}"
    return s if len(s) <= n else s[:n] + "..."


def canon(case: Any) -> str:
    return json.dumps(case, sort_keys=True, separators=(",", ":"), default=_json_default)


def _json_default(o):
    import numpy as np

    if isinstance(o, np.ndarray):
        return o.tolist()
    if isinstance(o, (np.integer,)):
        return int(o)
    if isinstance(o, (np.floating,)):
        return float(o)
    if isinstance(o, (np.bool_,)):
        return bool(o)
    if isinstance(o, (set, frozenset)):
        return sorted(o)
    if isinstance(o, tuple):
        return list(o)
    raise TypeError(f"not JSON serialisable: {type(o)}")


def digest(case: Any) -> int:
    return int.from_bytes(hashlib.blake2b(canon(case).encode(), digest_size=8).digest(), "big")


def derive_seed(*parts) -> int:
    h = hashlib.blake2b(("|".join(str(p) for p in parts)).encode(), digest_size=8).digest()
    return int.from_bytes(h, "big") % (2**63)


@dataclass
class Stats:
    evaluations: int = 0
    nontrivial: set = field(default_factory=set)
    labels: Counter = field(default_factory=Counter)
    samples: list = field(default_factory=list)
    discarded: int = 0
    excluded_known: int = 0
    extra: dict = field(default_factory=dict)

    def record(self, case: Any, info: dict | None) -> None:
        self.evaluations += 1
        nt = bool(info and info.get("nt"))
        if nt:
            self.nontrivial.add(digest(case))
        if info:
            for lab in info.get("labels", ()):
                self.labels[lab] += 1
        if len(self.samples) < 3 and (nt or self.evaluations <= 1):
            self.samples.append(json.loads(canon(case)))

    def merge(self, other: "Stats") -> None:
        self.evaluations += other.evaluations
        self.nontrivial |= other.nontrivial
        self.labels.update(other.labels)
        for s in other.samples:
            if len(self.samples) < 6:
                self.samples.append(s)
        self.discarded += other.discarded
        self.excluded_known += other.excluded_known
        for k, v in other.extra.items():
            if isinstance(v, (int, float)) and isinstance(self.extra.get(k, 0), (int, float)):
                self.extra[k] = self.extra.get(k, 0) + v
            else:
                self.extra[k] = v


@dataclass
class Failure:
    sub: str
    sig: str
    msg: str
    case: Any

    def size(self) -> int:
        return len(canon(self.case))


@dataclass
class Sub:
    name: str
    check: Callable[[Any], dict | None]
    kind: str = "hypothesis"  # "exhaustive" | "hypothesis" | "custom"
    # exhaustive: cases(shard, nshards) -> iterable of cases
    cases: Callable[[int, int], Iterable] | None = None
    # hypothesis: strategy() -> SearchStrategy of cases
    strategy: Callable[[], Any] | None = None
    examples: int = 100  # per shard
    shards: int = NPROC
    # custom: run(seed) -> (Stats, [Failure])
    run: Callable[[int], tuple] | None = None
    exhaustive_flag: bool = False  # set True if this sub enumerates a finite domain completely
    in_parent: bool = False  # run in the parent process (needed when the check spawns its own pools)
    hidden: bool = False  # not run by the main loop (executed by another sub-check, e.g. in fresh interpreters)
    ambient: bool = True  # cases may carry an ambient history (mzverif/prelude.py): earlier, unrelated uses of the library in this process


# ----------------------------------------------------------------------------------------------
# known findings
# ----------------------------------------------------------------------------------------------


def load_known(prop: str) -> list[dict]:
    p = os.path.join(VERIF_DIR, "known_findings.json")
    if not os.path.exists(p):
        return []
    with open(p) as f:
        data = json.load(f)
    return [e for e in data.get("findings", []) if e.get("property") == prop]


_KNOWN_ACTIVE: list[dict] = []
_CURRENT_PROP: str = "C??"


def _known_match(sig: str, case: Any) -> bool:
    for e in _KNOWN_ACTIVE:
        if e.get("status") != "known":
            continue
        if e.get("signature") != sig:
            continue
        m = e.get("match")
        if not m:
            return True
        ok = True
        for k, v in m.items():
            cur = case
            for part in k.split("."):
                if isinstance(cur, dict) and part in cur:
                    cur = cur[part]
                else:
                    cur = None
                    break
            if cur != v:
                ok = False
                break
        if ok:
            return True
    return False


# ----------------------------------------------------------------------------------------------
# per-case isolation
# ----------------------------------------------------------------------------------------------


def reset_globals() -> None:
    """state the library keeps between calls; reset before every case"""
    try:
        import maze_dataset.dataset.maze_dataset as md

        md.SERIALIZE_MINIMAL_THRESHOLD = 100
    except Exception:  # pragma: no cover
        pass
    mpl = sys.modules.get("matplotlib.pyplot")
    if mpl is not None:
        try:
            mpl.close("all")
        except Exception:
            pass


class TempDir:
    def __enter__(self) -> str:
        self.path = tempfile.mkdtemp(prefix="mzverif-")
        return self.path

    def __exit__(self, *a) -> None:
        shutil.rmtree(self.path, ignore_errors=True)


# ----------------------------------------------------------------------------------------------
# ambient history (see mzverif/prelude.py)
# ----------------------------------------------------------------------------------------------

AMBIENT = os.environ.get("VERIF_AMBIENT", "1") != "0"
AMBIENT_EVERY = 61  # enumerated cases: every 61st case of a shard is preceded by a prelude derived from its digest


def split_case(case: Any):
    """(prelude | None, the case the check sees)"""
    if isinstance(case, dict) and "__prelude__" in case and "__case__" in case:
        return case["__prelude__"], case["__case__"]
    return None, case


def run_case(sub: "Sub", case: Any):
    """interpret a case: its ambient history first (earlier uses of the library in this process; never asserted on), then the check"""
    pre, inner = split_case(case)
    if pre:
        from mzverif import prelude

        prelude.run(pre)
    info = sub.check(inner)
    if pre:
        info = dict(info or {})
        info["labels"] = list(info.get("labels", ())) + ["ambient-history"]
    return info


def with_ambient(sub: "Sub", case: Any, rate: int = 6):
    """about one case in `rate` is preceded by one or two earlier uses of the library - a pure function of the case's digest"""
    if not (AMBIENT and sub.ambient):
        return case
    d = digest(case)
    if d % rate:
        return case
    from mzverif import prelude

    return {"__prelude__": prelude.from_digest(d // rate), "__case__": case}


# ----------------------------------------------------------------------------------------------
# several cases at once, one thread each
# ----------------------------------------------------------------------------------------------


def threaded(check_fn: Callable) -> Callable:
    """check for a case {"cases": [...]}: every listed case is checked by `check_fn` in a thread of its own, all started together under a
    short switch interval. Only for checks whose verdict does not depend on the order in which random numbers are consumed (the oracle is
    a function of what the library returned). The interleaving belongs to the interpreter: it is sampled, not enumerated; a violation
    seen in any thread is a violation (the object that contradicted the oracle was really handed out)."""
    import threading

    def run(case: dict):
        cases = case["cases"]
        errs: list = []
        infos: list = [None] * len(cases)
        start = threading.Barrier(len(cases))

        def work(k):
            try:
                start.wait()
                for _ in range(case.get("repeat", 1)):
                    infos[k] = check_fn(cases[k])
            except BaseException as e:  # noqa: BLE001
                errs.append(e)

        old = sys.getswitchinterval()
        sys.setswitchinterval(1e-6)
        try:
            ths = [threading.Thread(target=work, args=(k,)) for k in range(len(cases))]
            for t in ths:
                t.start()
            for t in ths:
                t.join()
        finally:
            sys.setswitchinterval(old)
        for kind in (Violation, Exception, Discard, BaseException):
            for e in errs:
                if isinstance(e, kind):
                    raise e
        labels = sorted({lab for i in infos if i for lab in i.get("labels", ())})[:6]
        return {"nt": len(cases) >= 2 and any(i and i.get("nt") for i in infos), "labels": [f"threads:{len(cases)}"] + labels}

    return run


def threaded_strategy(inner: Callable, lo: int = 2, hi: int = 4):
    from hypothesis import strategies as st

    return lambda: st.fixed_dictionaries({"cases": st.lists(inner(), min_size=lo, max_size=hi), "repeat": st.sampled_from([1, 2, 3])})


# ----------------------------------------------------------------------------------------------
# workers
# ----------------------------------------------------------------------------------------------


def _guarded(sub: Sub, case: Any, stats: Stats, fails: dict) -> None:
    """run one case; collect (not raise) violations for exhaustive runs"""
    reset_globals()
    try:
        info = run_case(sub, case)
    except Discard:
        stats.discarded += 1
        return
    except (Violation, Exception) as v:  # noqa: BLE001
        if not isinstance(v, Violation):
            if not raised_in_library(v):
                raise
            v = as_violation(v, _CURRENT_PROP)
        if _known_match(v.sig, split_case(case)[1]):
            stats.excluded_known += 1
            return
        lst = fails.setdefault(v.sig, [])
        f = Failure(sub.name, v.sig, v.msg, json.loads(canon(case)))
        if len(lst) < MAX_FAIL_PER_SIG:
            lst.append(f)
        else:
            # keep the smallest
            big = max(range(len(lst)), key=lambda i: lst[i].size())
            if f.size() < lst[big].size():
                lst[big] = f
        stats.evaluations += 1
        return
    stats.record(split_case(case)[1], info)


def _exhaustive_shard(sub: Sub, shard: int, nshards: int):
    stats = Stats()
    fails: dict = {}
    k = 0
    for case in sub.cases(shard, nshards):
        k += 1
        if k % AMBIENT_EVERY == 0:
            case = with_ambient(sub, case, rate=1)
        _guarded(sub, case, stats, fails)
    return stats, [f for lst in fails.values() for f in lst]


def _hypothesis_shard(sub: Sub, shard: int, seed_base: int):
    from hypothesis import HealthCheck, Phase, given, seed, settings

    stats = Stats()
    last: dict = {}

    def body(case):
        reset_globals()
        case = with_ambient(sub, case)
        try:
            info = run_case(sub, case)
        except Discard:
            stats.discarded += 1
            return
        except (Violation, Exception) as v:  # noqa: BLE001
            if not isinstance(v, Violation):
                if type(v).__module__.startswith("hypothesis") or not raised_in_library(v):
                    raise
                v = as_violation(v, _CURRENT_PROP)
            if _known_match(v.sig, split_case(case)[1]):
                stats.excluded_known += 1
                return
            last["f"] = Failure(sub.name, v.sig, v.msg, json.loads(canon(case)))
            raise v
        stats.record(split_case(case)[1], info)

    phases = [Phase.generate, Phase.shrink]
    st = settings(
        max_examples=sub.examples,
        database=None,
        deadline=None,
        derandomize=False,
        report_multiple_bugs=False,
        suppress_health_check=list(HealthCheck),
        phases=phases,
    )
    test = seed(derive_seed(seed_base, sub.name, shard))(st(given(sub.strategy())(body)))
    try:
        test()
    except Violation:
        return stats, [last["f"]]
    except Exception:
        if "f" in last:
            # hypothesis wrapped it (e.g. flaky replay): a violation WAS observed in a real execution of this case.
            # re-establish it outside hypothesis; if it does not reproduce from the case alone (it depended on process
            # state left behind by earlier cases) it is still reported, and the message says so.
            f = last["f"]
            try:
                reset_globals()
                run_case(sub, f.case)
            except Violation as v:
                return stats, [Failure(sub.name, v.sig, v.msg, f.case)]
            except (Discard, Exception):  # noqa: BLE001
                pass
            f.msg = "[observed once; did not reproduce from the case alone - depends on state left by earlier cases in the same process] " + f.msg
            return stats, [f]
        raise
    return stats, []


_TASKS: list = []


def _run_task(i: int):
    fn, args = _TASKS[i]
    try:
        return ("ok", fn(*args))
    except BaseException:  # noqa: BLE001
        return ("err", traceback.format_exc())


class HarnessError(Exception):
    pass


def parallel(tasks: list, procs: int = NPROC) -> list:
    """run (fn, args) tasks in forked, non-daemonic worker processes"""
    global _TASKS
    _TASKS = tasks
    if not tasks:
        return []
    if procs <= 1 or len(tasks) == 1:
        out = [_run_task(i) for i in range(len(tasks))]
    else:
        ctx = multiprocessing.get_context("fork")
        with concurrent.futures.ProcessPoolExecutor(
            max_workers=min(procs, len(tasks)), mp_context=ctx
        ) as ex:
            out = list(ex.map(_run_task, range(len(tasks))))
    res = []
    for status, payload in out:
        if status == "err":
            raise HarnessError(payload)
        res.append(payload)
    return res


def run_sub(sub: Sub, seed_base: int) -> tuple[Stats, list[Failure]]:
    if sub.kind == "exhaustive":
        n = max(1, sub.shards)
        tasks = [(_exhaustive_shard, (sub, i, n)) for i in range(n)]
    elif sub.kind == "hypothesis":
        n = max(1, sub.shards)
        tasks = [(_hypothesis_shard, (sub, i, seed_base)) for i in range(n)]
    elif sub.kind == "custom":
        tasks = [(sub.run, (derive_seed(seed_base, sub.name),))]
    else:
        raise ValueError(sub.kind)
    results = parallel(tasks, procs=1 if sub.in_parent else NPROC)
    total = Stats()
    fails: list[Failure] = []
    for st, fl in results:
        total.merge(st)
        fails.extend(fl)
    return total, fails


# ----------------------------------------------------------------------------------------------
# evidence / replay files
# ----------------------------------------------------------------------------------------------


def write_replay(prop: str, f: Failure) -> str:
    d = os.path.join(VERIF_DIR, "replays", prop)
    os.makedirs(d, exist_ok=True)
    import re

    name = f"{re.sub(r'[^A-Za-z0-9_.-]', '_', f.sub)}-{digest([f.sig, f.case]):016x}.json"
    path = os.path.join(d, name)
    with open(path, "w") as fh:
        json.dump(
            {"property": prop, "sub": f.sub, "signature": f.sig, "message": f.msg, "case": f.case},
            fh,
            indent=1,
            sort_keys=True,
        )
    return path


def write_evidence(prop: str, ev: dict, strict: bool = True) -> str:
    d = os.path.join(VERIF_DIR, "evidence")
    os.makedirs(d, exist_ok=True)
    path = os.path.join(d, f"{prop}.json")
    tmp = path + ".tmp"
    with open(tmp, "w") as fh:
        json.dump(ev, fh, indent=1, default=_json_default)
    os.replace(tmp, path)
    try:
        import jsonschema
    except ImportError:
        return path
    schema_path = "/root/.vp/EVIDENCE.schema.json"
    if not os.path.exists(schema_path):
        schema_path = os.path.join(VERIF_DIR, "schemas", "EVIDENCE.schema.json")
    if os.path.exists(schema_path):
        with open(schema_path) as fh:
            schema = json.load(fh)
        with open(path) as fh:
            written = json.load(fh)
        try:
            jsonschema.validate(written, schema)
        except jsonschema.ValidationError as e:
            if strict:
                raise HarnessError(f"evidence does not validate: {e.message}")
            print(f"NOTE: evidence for {prop} does not validate ({e.message}); violations take precedence")
    return path


def run_property(mod, tier: str) -> int:
    """returns process exit code"""
    global _KNOWN_ACTIVE, _CURRENT_PROP
    t0 = time.time()
    prop = mod.ID
    _CURRENT_PROP = prop
    known = load_known(prop)
    _KNOWN_ACTIVE = known
    checks = {s.name: s for s in mod.subs(tier)}
    out_lines: list[str] = []
    violations: list[Failure] = []
    _PARTIAL["prop"], _PARTIAL["violations"] = prop, violations  # what the watchdog reports if a later sub-check never comes back

    # replay tier: stored cases of known / fixed findings run first
    for e in known:
        rp = e.get("replay")
        if not rp:
            continue
        rp_abs = rp if os.path.isabs(rp) else os.path.join(VERIF_DIR, rp)
        with open(rp_abs) as fh:
            stored = json.load(fh)
        sub = checks.get(stored["sub"])
        if sub is None:
            raise HarnessError(f"known finding refers to unknown sub-check {stored['sub']}")
        saved, _KNOWN_ACTIVE = _KNOWN_ACTIVE, []
        try:
            reset_globals()
            run_case(sub, stored["case"])
            failed = None
        except Discard:
            failed = None
        except Violation as v:
            failed = v
        except Exception as ex:  # noqa: BLE001
            if not raised_in_library(ex):
                raise
            failed = as_violation(ex, prop)
        finally:
            _KNOWN_ACTIVE = saved
        if e.get("status") == "known":
            if failed is not None and failed.sig == e.get("signature"):
                out_lines.append(f"KNOWN-FINDING: property={prop} {e.get('text', failed.sig)}")
            elif failed is not None:
                violations.append(Failure(stored["sub"], failed.sig, failed.msg, stored["case"]))
            else:
                out_lines.append(
                    f"NOTE: known finding no longer reproduces ({e.get('signature')}); entry is stale"
                )
        else:  # fixed: plain regression case, suppresses nothing
            if failed is not None:
                violations.append(Failure(stored["sub"], failed.sig, failed.msg, stored["case"]))

    total = Stats()
    sub_cov: dict = {}
    exhaustive_all = True
    harness_errors: list[str] = []
    for name, sub in checks.items():
        if sub.hidden:
            continue
        if os.environ.get("VERIF_ONLY_SUB") and name not in os.environ["VERIF_ONLY_SUB"].split(","):
            continue  # debugging aid only: never set by the registered commands
        ts = time.time()
        try:
            st, fails = run_sub(sub, SEED)
        except HarnessError as he:
            # keep going: other sub-checks may still decide the property; a harness error alone is exit 2
            harness_errors.append(f"sub-check {name}: {he}")
            sub_cov[name] = {"kind": sub.kind, "harness_error": True, "wall_s": round(time.time() - ts, 2)}
            exhaustive_all = False
            continue
        sub_cov[name] = {
            "kind": sub.kind,
            "evaluations": st.evaluations,
            "distinct_nontrivial": len(st.nontrivial),
            "discarded": st.discarded,
            "excluded_known": st.excluded_known,
            "exhaustive": bool(sub.exhaustive_flag),
            "wall_s": round(time.time() - ts, 2),
            **({"extra": st.extra} if st.extra else {}),
        }
        exhaustive_all = exhaustive_all and bool(sub.exhaustive_flag)
        # distinctness is per sub-check: tag digests with the sub name
        st.nontrivial = {digest([name, d]) for d in st.nontrivial}
        st.samples = [{"sub": name, "case": s} for s in st.samples]
        st.labels = Counter({f"{name}:{k}": v for k, v in st.labels.items()})
        total.merge(st)
        # one (smallest) failure per signature
        best: dict[str, Failure] = {}
        for f in fails:
            if f.sig not in best or f.size() < best[f.sig].size():
                best[f.sig] = f
        violations.extend(best.values())

    samples = total.samples
    # make sure every sub-check is represented among the samples
    seen = set()
    picked = []
    for s in samples:
        if s["sub"] not in seen:
            picked.append(s)
            seen.add(s["sub"])
    for s in samples:
        if len(picked) >= max(6, len(seen)):
            break
        if s not in picked:
            picked.append(s)

    wall = time.time() - t0
    ev = {
        "property_id": prop,
        "tier": tier,
        "seed": SEED,
        "level": mod.LEVEL,
        "coverage": {
            "evaluations": total.evaluations,
            "distinct_nontrivial": len(total.nontrivial),
            "rule": mod.RULE,
            "samples": picked,
            "labels": dict(sorted(total.labels.items())),
            "exhaustive": bool(exhaustive_all),
            "discarded": total.discarded,
            "excluded_known": total.excluded_known,
            "sub_checks": sub_cov,
            "technique": getattr(mod, "TECHNIQUE", ""),
        },
        "assumptions": list(getattr(mod, "ASSUMPTIONS", [])),
        "wall_s": round(wall, 2),
        "violations": len(violations),
    }
    write_evidence(prop, ev, strict=not violations and not harness_errors)
    for line in out_lines:
        print(line)
    sys.stdout.flush()
    if violations:
        for f in violations:
            path = write_replay(prop, f)
            print(f"VIOLATION property={prop} replay={path}")
            print(f"  signature={f.sig}")
            print(f"  {f.msg}")
        for h in harness_errors:
            print("NOTE: a sub-check also ended in a harness error (inconclusive):", " | ".join(h.splitlines()[:1] + h.splitlines()[-4:]))
        return 1
    if harness_errors:
        print("HARNESS-ERROR (inconclusive, not a violation):")
        for h in harness_errors:
            print(h)
        return 2
    print(
        f"OK property={prop} tier={tier} seed={SEED} evaluations={total.evaluations} "
        f"distinct_nontrivial={len(total.nontrivial)} discarded={total.discarded} wall={wall:.1f}s"
    )
    return 0


_PARTIAL: dict = {"prop": None, "violations": []}


def report_partial() -> bool:
    """called by the watchdog when the wall budget is exceeded: violations that completed sub-checks had already established are
    facts about the tree and are reported (exit 1); the sub-check that did not come back is merely inconclusive"""
    fails = list(_PARTIAL.get("violations") or [])
    if not fails:
        return False
    for f in fails:
        try:
            path = write_replay(_PARTIAL["prop"], f)
        except Exception:  # noqa: BLE001
            path = "(replay could not be written)"
        print(f"VIOLATION property={_PARTIAL['prop']} replay={path}")
        print(f"  signature={f.sig}")
        print(f"  {f.msg}")
    print("NOTE: a later sub-check then exceeded the wall budget and was abandoned (inconclusive on its own)", flush=True)
    return True


def run_replay(mod, path: str) -> int:
    with open(path) as fh:
        stored = json.load(fh)
    checks = {s.name: s for s in mod.subs("quick")}
    sub = checks[stored["sub"]]
    try:
        reset_globals()
        run_case(sub, stored["case"])
    except Discard:
        print(f"replay {path}: case discarded by precondition")
        return 0
    except (Violation, Exception) as v:  # noqa: BLE001
        if not isinstance(v, Violation):
            if not raised_in_library(v):
                raise
            v = as_violation(v, mod.ID)
        print(f"VIOLATION property={mod.ID} replay={path}")
        print(f"  signature={v.sig}")
        print(f"  {v.msg}")
        return 1
    print(f"replay {path}: property holds on this case")
    return 0


# ----------------------------------------------------------------------------------------------
# helpers for custom sub-checks
# ----------------------------------------------------------------------------------------------


def collect_examples(strategy, n: int, seed_val: int) -> list:
    """the first `n` examples Hypothesis generates from `strategy` under `seed_val` (deduplicated by digest)"""
    from hypothesis import HealthCheck, Phase, given, seed, settings

    out: list = []
    seen: set = set()

    def body(case):
        d = digest(case)
        if d not in seen and len(out) < n:
            seen.add(d)
            out.append(json.loads(canon(case)))

    st_ = settings(max_examples=max(n * 3, n + 20), database=None, deadline=None, derandomize=False,
                   suppress_health_check=list(HealthCheck), phases=[Phase.generate])
    seed(seed_val)(st_(given(strategy)(body)))()
    return out


def run_python(code: str, env_extra: dict | None = None, stdin: str | None = None, timeout: int = 600) -> str:
    """run `code` in a fresh interpreter that sees the same tree under test; returns stdout (raises HarnessError on failure)"""
    import subprocess

    env = dict(os.environ)
    env.update(env_extra or {})
    p = subprocess.run([sys.executable, "-B", "-W", "ignore", "-c", code], input=stdin, capture_output=True, text=True, env=env, timeout=timeout)
    if p.returncode != 0:
        raise HarnessError(f"sub-interpreter failed ({p.returncode}):\n{p.stderr[-3000:]}")
    return p.stdout


_SHARD_CODE = r"""
import sys, json, warnings
warnings.filterwarnings("ignore")
sys.path.insert(0, {verif!r})
import importlib
from mzverif import core
core._KNOWN_ACTIVE = core.load_known({prop!r})
core._CURRENT_PROP = {prop!r}
mod = importlib.import_module("mzverif.props." + {prop!r})
sub = [s for s in mod.subs({tier!r}) if s.name == {inner!r}][0]
sub.examples = {examples}
st, fails = core._hypothesis_shard(sub, {shard}, {seed})
print("RESULT" + json.dumps({{"evaluations": st.evaluations, "nontrivial": sorted(st.nontrivial), "labels": dict(st.labels), "samples": st.samples,
      "discarded": st.discarded, "excluded_known": st.excluded_known,
      "fails": [{{"sub": f.sub, "sig": f.sig, "msg": f.msg, "case": f.case}} for f in fails]}}, default=core._json_default))
"""


def hypothesis_in_fresh_interpreters(prop: str, tier: str, inner: str, name: str, total_examples: int, chunk: int, timeout: int):
    """run(seed) for a custom Sub: the Hypothesis sub-check `inner` of `prop` is executed in fresh top-level interpreters, `chunk`
    examples at a time, each under a wall limit. A chunk that hangs is killed and counted (extra.hung_chunks); it is a harness
    matter (exit 2 if every chunk hangs), never a violation."""
    import subprocess

    def run(seed_val: int):
        stats, fails, hung = Stats(), [], 0
        n_chunks = max(1, (total_examples + chunk - 1) // chunk)
        for k in range(n_chunks):
            code = _SHARD_CODE.format(verif=VERIF_DIR, prop=prop, tier=tier, inner=inner, examples=min(chunk, total_examples - k * chunk), shard=k, seed=seed_val)
            p = subprocess.Popen([sys.executable, "-B", "-W", "ignore", "-c", code], stdout=subprocess.PIPE, stderr=subprocess.PIPE, text=True, start_new_session=True)
            try:
                out, err = p.communicate(timeout=timeout)
            except subprocess.TimeoutExpired:
                import signal

                try:
                    os.killpg(p.pid, signal.SIGKILL)
                except Exception:
                    p.kill()
                p.communicate()
                hung += 1
                continue
            line = next((ln for ln in out.splitlines() if ln.startswith("RESULT")), None)
            if p.returncode != 0 or line is None:
                raise HarnessError(f"fresh interpreter for {prop}/{inner} failed ({p.returncode}):\n{err[-2000:]}")
            d = json.loads(line[len("RESULT"):])
            st = Stats(evaluations=d["evaluations"], nontrivial=set(d["nontrivial"]), labels=Counter(d["labels"]), samples=d["samples"],
                       discarded=d["discarded"], excluded_known=d["excluded_known"])
            stats.merge(st)
            fails += [Failure(name, f["sig"], f["msg"], f["case"]) for f in d["fails"]]
        stats.extra["chunks"] = n_chunks
        stats.extra["hung_chunks"] = hung
        if hung == n_chunks:
            raise HarnessError(f"every chunk of {prop}/{inner} exceeded its wall limit of {timeout}s")
        return stats, fails

    return run
