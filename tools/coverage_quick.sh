#!/bin/sh
# line/branch coverage of maze_dataset under the quick tiers (single process per check); output: $1 (default /tmp/cov)
out="${1:-/tmp/cov}"; shift
here="$(cd "$(dirname "$0")/.." && pwd)"; cd "$here" || exit 2
props="${*:-C01 C02 C03 C04 C05 C06 C07 C08 C09 C10 C11 C12 C13 C14 C15 C16 C17 C18 C19 C20}"
mkdir -p "$out"
export PYTHONHASHSEED=0 MPLBACKEND=Agg TQDM_DISABLE=1 VERIF_NPROC=1 VERIF_REPO=/repo PYTHONPATH="/repo:$here:$here/.deps"
for p in $props; do
  COVERAGE_FILE="$out/.coverage.$p" /venv/bin/python -B -W ignore -m coverage run --branch --source=/repo/maze_dataset "$here/mzverif/cli.py" "$p" --tier quick > "$out/$p.log" 2>&1
  echo "$p rc=$? $(tail -1 "$out/$p.log")"
done
cd "$out" && /venv/bin/python -m coverage combine --keep -q .coverage.C* 2>/dev/null; /venv/bin/python -m coverage report --skip-empty -m > "$out/report.txt" 2>&1; tail -5 "$out/report.txt"
