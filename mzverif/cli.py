"""`check <ID> [--tier quick|thorough] [--replay FILE]`"""

import argparse
import importlib
import os
import sys
import traceback
import warnings

warnings.filterwarnings("ignore")
os.environ.setdefault("MPLBACKEND", "Agg")
os.environ.setdefault("TQDM_DISABLE", "1")

HERE = os.path.dirname(os.path.abspath(__file__))
sys.path.insert(0, os.path.dirname(HERE))


def main() -> int:
    ap = argparse.ArgumentParser()
    ap.add_argument("prop")
    ap.add_argument("--tier", default=os.environ.get("VERIF_TIER") or "quick", choices=["quick", "thorough"])
    ap.add_argument("--replay", default=None)
    args = ap.parse_args()
    try:
        from mzverif import core

        repo = os.environ.get("VERIF_REPO", "/repo")
        import maze_dataset

        if not os.path.abspath(maze_dataset.__file__).startswith(os.path.abspath(repo) + os.sep):
            print(f"HARNESS-ERROR: maze_dataset imported from {maze_dataset.__file__}, expected {repo}")
            return 2
        mod = importlib.import_module(f"mzverif.props.{args.prop}")
        if args.replay:
            return core.run_replay(mod, args.replay)
        return core.run_property(mod, args.tier)
    except SystemExit:
        raise
    except BrokenPipeError:
        return 1
    except BaseException:  # noqa: BLE001
        print("HARNESS-ERROR (inconclusive, not a violation):")
        traceback.print_exc()
        return 2


if __name__ == "__main__":
    sys.exit(main())
