#!/venv/bin/python
"""regenerate MANIFEST.json from the property modules present under mzverif/props (run from /verif via ./check's env)"""
import importlib, json, os, sys

HERE = os.path.dirname(os.path.dirname(os.path.abspath(__file__)))
sys.path.insert(0, HERE)
sys.path.insert(0, os.environ.get("VERIF_REPO", "/repo"))
import warnings; warnings.filterwarnings("ignore")

props = [json.loads(l) for l in open(os.path.join(HERE, "properties.jsonl"))]
NOT_APPLICABLE = {}  # id -> reason (properties the technique cannot decide)

checks, na = [], []
for p in props:
    pid = p["id"]
    path = os.path.join(HERE, "mzverif", "props", f"{pid}.py")
    if pid in NOT_APPLICABLE:
        na.append({"property_id": pid, "reason": NOT_APPLICABLE[pid]})
        continue
    if not os.path.exists(path):
        na.append({"property_id": pid, "reason": "check not built yet (work in progress); not claimed"})
        continue
    mod = importlib.import_module(f"mzverif.props.{pid}")
    checks.append({
        "property_id": pid,
        "quick_cmd": f"./check {pid} --tier quick",
        "thorough_cmd": f"./check {pid} --tier thorough",
        "evidence_file": f"evidence/{pid}.json",
        "replay_cmd_template": f"./check {pid} --replay {{path}}",
        "engine": "mzverif",
        "level_claimed": {
            "category": mod.LEVEL,
            "text": (mod.LEVEL_TEXT if hasattr(mod, "LEVEL_TEXT") else (
                ("fault enumeration" if mod.LEVEL == "fault_enumeration" else "exploration") + " by generated-input search against an explicit oracle: " + mod.TECHNIQUE
                + ". Assurance: the property held on every explored case; sub-domains flagged exhaustive in the evidence were enumerated completely; "
                "no claim is made outside the explored domain. This is the level the technique family can give for a for-all statement over an unbounded input space."
            )),
            "design_ref": f"DESIGN.md section 7, {pid}",
        },
        "level_note": "; ".join(mod.ASSUMPTIONS),
        "technique": mod.TECHNIQUE,
    })

manifest = {
    "version": 1,
    "setup_cmd": "./setup.sh",
    "hooks": {
        "guard": "MAZE_DATASET_VERIF",
        "enable": "no source hooks are needed: every observation point is public API or a module attribute; the harness substitutes names inside third-party modules (zanj.zipfile) from its own process only",
        "baseline_off_cmd": "cd /repo && /venv/bin/python -m pytest -ra -q -p no:cacheprovider --timeout=900 --continue-on-collection-errors",
        "source_commits": [],
        "add_only": True,
    },
    "engines": [{
        "name": "mzverif",
        "path": "mzverif/",
        "serves_properties": [c["property_id"] for c in checks],
        "kind_free_text": "property-based testing: Hypothesis strategies + exhaustive enumerators over JSON cases, independent reference models as oracles, fork pool of 16, shrunk failing case = replay file",
    }],
    "checks": checks,
    "not_applicable": na,
    "notes": "exit 0 = held on everything explored, 1 = VIOLATION line + replay file, 2 = harness error / inconclusive (never a violation). VERIF_SEED seeds every Hypothesis run; VERIF_REPO (default /repo) selects the tree under test.",
}
with open(os.path.join(HERE, "MANIFEST.json"), "w") as f:
    json.dump(manifest, f, indent=1)
import jsonschema
jsonschema.validate(manifest, json.load(open(os.path.join(HERE, "schemas", "MANIFEST.schema.json"))))
print("claimed:", [c["property_id"] for c in checks]); print("not claimed:", [x["property_id"] for x in na])
