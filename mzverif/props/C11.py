"""C11 - the on-disk dataset cache never serves wrong data, whatever happened to the file."""

from __future__ import annotations

import io
import os
import types
import zipfile
from functools import lru_cache

from hypothesis import strategies as st

from mzverif import core
from mzverif import lib as L
from mzverif.core import Sub, Violation, require
from mzverif.props import C08

ID = "C11"
LEVEL = "fault_enumeration"
TECHNIQUE = "fault enumeration on the cache file the library itself wrote: every truncation point, single-byte corruptions (all bytes of the zip structures + dense stride elsewhere), every prefix of the writer operation log (save interrupted), injected write errors followed by a plain request, the same faults on a file that had been in use by this process, foreign files under the requested name, file-name collisions between configurations; oracle = fresh uncached generation, returned and stored configuration, loadable file left behind (read back from a copy elsewhere); requests with one configuration object edited in place between requests; near-variant pairs requested from one directory (dotted names, abbreviated maze counts)"
RULE = (
    "case = (configuration from a fixed pool covering full and minimal storage formats with and without recorded filters, fault). "
    "Faults: missing, empty, truncate@k, corrupt@k (xor 0xFF / xor 0x01 / zero), interrupted@op k (+ half of that write), "
    "live write error at write k (transient / persistent) then a plain request, foreign file differing in exactly one field, "
    "file-name collision (two configurations found by birthday search whose cache file names coincide, requested one after the other). "
    "evaluations = (config, fault) pairs; non-trivial = the damaged file is non-empty and differs from the intact file."
)
ASSUMPTIONS = [
    "crash points are enumerated at the granularity of the Python-level file operations issued by zipfile during the library's save, plus every byte prefix of the final file; torn writes inside one operation are covered by the half-write and truncation families",
    "a configuration mismatch may be answered with ValueError (the statement allows an error instead of silently returning other data); for a foreign file differing only in the maze count either the stored or the fresh mazes are accepted",
    "an exception propagating out of a request whose own save hits an injected write error is allowed; the following plain request is what is checked",
    "configurations with >= 100 mazes carry no recorded filters (the second request of such a configuration is documented to raise a config mismatch)",
]

POOL = {
    "A-full": {"name": "a.v2", "grid_n": 3, "n_mazes": 4, "ctor": "gen_dfs", "kwargs": {}, "seed": 1},
    "B-full-filters": {"name": "b", "grid_n": 4, "n_mazes": 6, "ctor": "gen_dfs_percolation", "kwargs": {"p": 0.3}, "seed": 2,
                       "filters": [{"name": "path_length", "args": [], "kwargs": {"min_length": 4}}]},
    "C-minimal": {"name": "c", "grid_n": 3, "n_mazes": 100, "ctor": "gen_dfs", "kwargs": {}, "seed": 3},
    "D-wilson": {"name": "d", "grid_n": 5, "n_mazes": 3, "ctor": "gen_wilson", "kwargs": {}, "seed": 4},
    "E-endpoints": {"name": "e", "grid_n": 4, "n_mazes": 5, "ctor": "gen_dfs", "kwargs": {"do_forks": False}, "seed": 5,
                    "endpoint": {"endpoints_not_equal": True, "deadend_start": True}},
    "F-minimal-perc": {"name": "f", "grid_n": 4, "n_mazes": 120, "ctor": "gen_dfs_percolation", "kwargs": {"p": 0.2}, "seed": 6},
    "G-filters2": {"name": "g", "grid_n": 3, "n_mazes": 9, "ctor": "gen_dfs", "kwargs": {}, "seed": 7,
                   "filters": [{"name": "path_length", "args": [3], "kwargs": {}}, {"name": "truncate_count", "args": [], "kwargs": {"max_count": 5}}]},
    "H-prim": {"name": "h", "grid_n": 6, "n_mazes": 2, "ctor": "gen_prim", "kwargs": {"accessible_cells": 20}, "seed": 8},
}


def _from_config(spec, td, **kw):
    from maze_dataset import MazeDataset

    return MazeDataset.from_config(L.make_cfg(spec), local_base_path=td, do_download=False, **kw)


def _edit_in_place(cfg, spec) -> None:
    """the caller turns the configuration object it holds into the configuration `spec` describes: scalar fields are assigned, containers
    are emptied and refilled through their own methods (the object keeps its identity and the identity of its containers)"""
    want = L.make_cfg(spec)
    for fld in ("name", "grid_n", "n_mazes", "maze_ctor", "seed"):
        setattr(cfg, fld, getattr(want, fld))
    for fld in ("maze_ctor_kwargs", "endpoint_kwargs"):
        d = getattr(cfg, fld)
        d.clear()
        d.update(getattr(want, fld))
    cfg.applied_filters[:] = list(want.applied_filters)
    assert L.cfg_fields(cfg) == L.cfg_fields(want), "harness: in-place edit did not reach the target configuration"


# pairs of configurations that differ little and are requested one after the other from one directory: [first, second]
PAIRS = [
    [{"name": "m.v1", "grid_n": 3, "n_mazes": 4, "ctor": "gen_dfs", "kwargs": {}, "seed": 1}, {"name": "m.v2", "grid_n": 3, "n_mazes": 4, "ctor": "gen_dfs", "kwargs": {}, "seed": 1}],
    [{"name": "m.v2", "grid_n": 3, "n_mazes": 4, "ctor": "gen_dfs", "kwargs": {}, "seed": 1}, {"name": "m.v2", "grid_n": 3, "n_mazes": 4, "ctor": "gen_dfs", "kwargs": {}, "seed": 2}],
    [{"name": "m.v2.final", "grid_n": 3, "n_mazes": 4, "ctor": "gen_wilson", "kwargs": {}, "seed": 1}, {"name": "m.v2.final", "grid_n": 4, "n_mazes": 4, "ctor": "gen_wilson", "kwargs": {}, "seed": 1}],
    [{"name": "k", "grid_n": 2, "n_mazes": 1100, "ctor": "gen_dfs", "kwargs": {}, "seed": 1}, {"name": "k", "grid_n": 2, "n_mazes": 1100, "ctor": "gen_dfs", "kwargs": {}, "seed": 2}],
    [{"name": "k", "grid_n": 2, "n_mazes": 1100, "ctor": "gen_dfs", "kwargs": {}, "seed": 1}, {"name": "k", "grid_n": 2, "n_mazes": 1100, "ctor": "gen_dfs", "kwargs": {"do_forks": False}, "seed": 1}],
    [{"name": "k-1", "grid_n": 2, "n_mazes": 12, "ctor": "gen_dfs", "kwargs": {}, "seed": 1}, {"name": "k-1", "grid_n": 2, "n_mazes": 12, "ctor": "gen_dfs", "kwargs": {}, "seed": 1, "endpoint": {"endpoints_not_equal": True}}],
]


def _fp(ds):
    return [C08._struct(m) for m in ds.mazes]


@lru_cache(maxsize=None)
def _baseline(key: str):
    """(fresh fingerprint, intact cache bytes, cache file name, writer op log) for a pool entry, computed once per process"""
    spec = POOL[key]
    fresh = _fp(_from_config(spec, "unused", load_local=False, save_local=False))
    with core.TempDir() as td:
        with _Instrument(record=True) as ins:
            _from_config(spec, td)
        fname = L.make_cfg(spec).to_fname() + ".zanj"
        if not os.path.exists(os.path.join(td, fname)):
            # the very first request left no file under the requested configuration's name: reported by check() as a violation
            return fresh, None, fname, None
        with open(os.path.join(td, fname), "rb") as f:
            intact = f.read()
        ops = ins.ops
    require(_replay_ops(ops, len(ops)) == intact, "C11:harness:oplog", "recorded operation log does not reproduce the file")  # sanity of the harness
    return fresh, intact, fname, ops


# ---------------------------------------------------------------------------------------------
# instrumentation of the writer (harness side; nothing in the repository is touched)
# ---------------------------------------------------------------------------------------------


class _RecFile(io.RawIOBase):
    """file object handed to zipfile: records every write / truncate, optionally fails the k-th write"""

    def __init__(self, path, ops, fail_at=None, persistent=False):
        super().__init__()
        self._f = open(path, "w+b")
        self.ops = ops
        self.ops.append(("open",))
        self.nwrites = 0
        self.fail_at, self.persistent = fail_at, persistent

    def writable(self):
        return True

    def readable(self):
        return True

    def seekable(self):
        return True

    def write(self, b):
        b = bytes(b)
        k = self.nwrites
        self.nwrites += 1
        if self.fail_at is not None and (k == self.fail_at or (self.persistent and k > self.fail_at)):
            raise OSError(28, "No space left on device (injected)")
        self.ops.append(("w", self._f.tell(), b))
        return self._f.write(b)

    def readinto(self, b):
        return self._f.readinto(b)

    def seek(self, off, whence=0):
        return self._f.seek(off, whence)

    def tell(self):
        return self._f.tell()

    def truncate(self, size=None):
        size = self._f.tell() if size is None else size
        self.ops.append(("t", size))
        return self._f.truncate(size)

    def flush(self):
        if not self._f.closed:
            self._f.flush()

    def close(self):
        if not self._f.closed:
            self._f.close()
        super().close()


def _replay_ops(ops, k, half_last=False) -> bytes:
    buf = bytearray()
    for i, op in enumerate(ops[:k]):
        if op[0] == "open":
            buf = bytearray()
        elif op[0] == "w":
            _, pos, data = op
            if half_last and i == k - 1:
                data = data[: len(data) // 2]
            if pos > len(buf):
                buf.extend(b"\0" * (pos - len(buf)))
            buf[pos : pos + len(data)] = data
        elif op[0] == "t":
            del buf[op[1] :]
    return bytes(buf)


class _Instrument:
    """substitute the name `zipfile` inside zanj's writer module with a shim whose ZipFile writes through _RecFile"""

    def __init__(self, record=False, fail_at=None, persistent=False):
        self.ops: list = []
        self.fail_at, self.persistent = fail_at, persistent

    def __enter__(self):
        import zanj.zanj as zz

        self._mod = zz
        self._orig = zz.zipfile
        outer = self

        class ZipFileShim(zipfile.ZipFile):
            def __init__(self, file, mode="r", *a, **kw):
                if "w" in mode and isinstance(file, (str, os.PathLike)):
                    self._rec = _RecFile(file, outer.ops, outer.fail_at, outer.persistent)
                    super().__init__(self._rec, mode, *a, **kw)
                else:
                    self._rec = None
                    super().__init__(file, mode, *a, **kw)

            def close(self):
                try:
                    super().close()
                finally:
                    if self._rec is not None:
                        self._rec.close()

            def __del__(self):  # the writer leaks the archive object when a write fails; finalisation may fail again
                try:
                    super().__del__()
                except Exception:  # noqa: BLE001
                    pass

        shim = types.SimpleNamespace(**{k: getattr(zipfile, k) for k in dir(zipfile) if not k.startswith("__")})
        shim.ZipFile = ZipFileShim
        zz.zipfile = shim
        return self

    def __exit__(self, *a):
        self._mod.zipfile = self._orig


# ---------------------------------------------------------------------------------------------
# the check
# ---------------------------------------------------------------------------------------------


def _verify_request(sig, spec, td, path, fresh, allow_mismatch_error=False, alt=None):
    """a plain request must return the fresh data and leave a loadable, matching file behind"""
    from maze_dataset import MazeDataset

    try:
        ds = _from_config(spec, td)
    except Exception as e:  # noqa: BLE001
        if allow_mismatch_error and core.raised_in_library(e):
            # "a mismatch raises an error rather than silently returning other data": neither the type nor the wording is prescribed
            return "mismatch-error"
        raise Violation(f"{sig}:request-raises:{type(e).__name__}", str(e)[:300]) from e
    got = _fp(ds)
    _cfg_matches(f"{sig}:returned-config-differs", spec, ds.cfg)
    ok = got == fresh or (alt is not None and got == alt)
    require(ok, f"{sig}:wrong-data", f"request returned {len(got)} mazes that are not the fresh generation ({len(fresh)} mazes); first difference at index "
            f"{next((i for i, (x, y) in enumerate(zip(got, fresh)) if x != y), min(len(got), len(fresh)))}")
    require(os.path.exists(path), f"{sig}:no-file-left", "no cache file after the request")
    # "a loadable file": loadable by anyone - it is read back from a copy under another name in another directory, so that nothing this
    # process remembers about the path (or about having just produced the data) can stand in for the bytes on disk
    with core.TempDir() as td_copy:
        elsewhere = os.path.join(td_copy, "copy-of-cache-file.zanj")
        with open(path, "rb") as fi, open(elsewhere, "wb") as fo:
            fo.write(fi.read())
        try:
            back = MazeDataset.read(elsewhere)
        except Exception as e:  # noqa: BLE001
            raise Violation(f"{sig}:file-left-unloadable:{type(e).__name__}", str(e)[:300]) from e
    require(isinstance(back, MazeDataset), f"{sig}:file-left-unloadable:{type(back).__name__}", f"reading the file left behind gave {type(back).__name__}, not a dataset")
    require(_fp(back) == got, f"{sig}:file-left-wrong-data", "the file left behind holds other mazes than the request returned")
    _cfg_matches(f"{sig}:file-left-config-differs", spec, back.cfg)
    return "data"


def _cfg_matches(sig, spec, other_cfg):
    """`other_cfg` describes the requested configuration: no difference except the maze count and a trailing metadata-collection entry"""
    cfg = L.make_cfg(spec)
    d = cfg.diff(other_cfg, of_serialized=True)
    d.pop("n_mazes", None)
    allowed = {"applied_filters": {"self": [], "other": [{"name": "collect_generation_meta", "args": (), "kwargs": {}}]}}
    if d and d != allowed:
        norm = lambda fl: [dict(name=f["name"], args=tuple(f.get("args", ())), kwargs=dict(f.get("kwargs", {}))) for f in fl]  # noqa: E731
        sf, of = norm(cfg.applied_filters), norm(other_cfg.applied_filters)
        only_filters = set(d.keys()) == {"applied_filters"}
        ok2 = only_filters and (of == sf or of == sf + [dict(name="collect_generation_meta", args=(), kwargs={})])
        require(ok2, sig, f"configuration differs from the request: {str(d)[:300]}")


def check(case: dict):
    key, fault = case["cfg"], case["fault"]
    spec = POOL[key]
    fresh, intact, fname, ops = _baseline(key)
    kind = fault["kind"]
    sig = f"C11:{kind}"
    labels = [key, kind]
    require(intact is not None, "C11:missing:no-file-left", f"a request for {key} with an empty cache directory left no file named {fname}")
    with core.TempDir() as td:
        path = os.path.join(td, fname)
        damaged = None
        if kind == "missing":
            pass
        elif kind == "intact":
            damaged = intact
        elif kind == "empty":
            damaged = b""
        elif kind == "truncate":
            k = fault["at"] % len(intact)
            damaged = intact[:k]
        elif kind == "corrupt":
            k = fault["at"] % len(intact)
            b = intact[k]
            nb = {"xorff": b ^ 0xFF, "xor01": b ^ 0x01, "zero": 0 if b != 0 else 0x80}[fault["mode"]]
            damaged = intact[:k] + bytes([nb]) + intact[k + 1 :]
            labels.append(fault["mode"])
            labels.append("zip-structure" if _in_structure(intact, k) else "member-data")
        elif kind == "interrupted":
            k = fault["op"] % (len(ops) + 1)
            damaged = _replay_ops(ops, k, half_last=fault.get("half", False))
            labels.append("half-write" if fault.get("half") else "whole-ops")
        elif kind == "live":
            # a request whose own save hits write errors, then (after optional further faulty requests) a plain request
            for step in fault["steps"]:
                try:
                    with _Instrument(fail_at=step["at"], persistent=step.get("persistent", False)):
                        _from_config(spec, td)
                except OSError:
                    pass
                except Exception as e:  # noqa: BLE001
                    raise Violation(f"{sig}:faulty-save-raises:{type(e).__name__}", str(e)[:300]) from e
            labels.append(f"steps{len(fault['steps'])}")
            if os.path.exists(path):
                with open(path, "rb") as f:
                    damaged = f.read()
            _verify_request(sig, spec, td, path, fresh)
            return {"nt": bool(damaged) and damaged != intact, "labels": labels}
        elif kind == "collision":
            # two different configurations whose cache file names coincide (the name carries only five digits of the hash): the
            # first request leaves its file under the shared name, the second request finds it there
            s1, s2 = _colliding_seeds(key, fault.get("skip", 0))
            first, second = dict(spec, seed=s1), dict(spec, seed=s2)
            if fault.get("swap"):
                first, second = second, first
            require(L.make_cfg(first).to_fname() == L.make_cfg(second).to_fname(), "C11:harness:collision", "seeds do not collide")
            fresh2 = _fp(_from_config(second, "unused", load_local=False, save_local=False))
            _from_config(first, td)
            path2 = os.path.join(td, L.make_cfg(second).to_fname() + ".zanj")
            require(os.path.exists(path2), "C11:missing:no-file-left", "the first request left no file under the shared name")
            res = _verify_request(sig, second, td, path2, fresh2, allow_mismatch_error=True)
            labels.append(res)
            return {"nt": True, "labels": labels}
        elif kind == "pair":
            # two configurations that differ little, requested one after the other from one directory: each request returns its own
            # configuration's data and leaves its own loadable file (nothing foreign lies under either name, so neither may be refused)
            first, second = PAIRS[fault["i"] % len(PAIRS)]
            if fault.get("swap"):
                first, second = second, first
            for sp in (first, second, first):
                fr = _fp(_from_config(sp, "unused", load_local=False, save_local=False))
                _verify_request(sig, sp, td, os.path.join(td, L.make_cfg(sp).to_fname() + ".zanj"), fr)
            return {"nt": True, "labels": labels + [f"pair{fault['i'] % len(PAIRS)}"]}
        elif kind == "edited-config":
            # one configuration object: requested while it described a neighbouring configuration, edited in place by the caller to the
            # configuration at hand, requested again. The second request is a request for the configuration the object holds *now*.
            from maze_dataset import MazeDataset

            other = L.json_copy(spec)
            fld = fault["field"]
            _vary(other, fld)
            labels.append(f"field:{fld}")
            obj = L.make_cfg(other)
            try:
                MazeDataset.from_config(obj, local_base_path=td, do_download=False)
            except Exception as e:  # noqa: BLE001
                core.discard_if_unsatisfiable(e, f"C11:edited-config:{fld}:first-request")
            other_fp = _fp(_from_config(other, "unused", load_local=False, save_local=False)) if fld == "n_mazes" else None
            _edit_in_place(obj, spec)
            try:
                ds = MazeDataset.from_config(obj, local_base_path=td, do_download=False)
            except Exception as e:  # noqa: BLE001
                raise Violation(f"{sig}:{fld}:request-raises:{type(e).__name__}", str(e)[:300]) from e
            got = _fp(ds)
            require(got == fresh or (other_fp is not None and got == other_fp), f"{sig}:{fld}:wrong-data",
                    f"the request with the edited configuration object returned {len(got)} mazes that are not the fresh generation of the configuration it holds ({len(fresh)} mazes)")
            _cfg_matches(f"{sig}:{fld}:returned-config-differs", spec, ds.cfg)
            _verify_request(sig + f":{fld}", spec, td, path, fresh, alt=other_fp)
            return {"nt": True, "labels": labels}
        elif kind == "foreign":
            other = L.json_copy(spec)
            fld = fault["field"]
            _vary(other, fld)
            labels.append(f"field:{fld}")
            with core.TempDir() as td2:
                try:
                    ods = _from_config(other, td2)
                except Exception as e:  # noqa: BLE001
                    core.discard_if_unsatisfiable(e, f"C11:foreign:{fld}:request")
                ofname = L.make_cfg(other).to_fname() + ".zanj"
                require(os.path.exists(os.path.join(td2, ofname)), "C11:missing:no-file-left", f"a request for the variant configuration ({fld} changed) left no file named {ofname}")
                with open(os.path.join(td2, ofname), "rb") as f:
                    damaged = f.read()
                other_fp = _fp(ods)
            with open(path, "wb") as f:
                f.write(damaged)
            if fld == "n_mazes":
                res = _verify_request(sig + ":n_mazes", spec, td, path, fresh, allow_mismatch_error=True, alt=other_fp)
            else:
                # (when the variant happens to generate the same mazes only the returned / stored configuration tells them apart)
                res = _verify_request(sig + f":{fld}", spec, td, path, fresh, allow_mismatch_error=True)
            labels.append(res)
            return {"nt": True, "labels": labels}
        else:
            raise ValueError(kind)
        if fault.get("warm"):
            # the file had been in use - written by a request and loaded by another one in this very process - before it got damaged
            with open(path, "wb") as f:
                f.write(intact)
            _verify_request(sig + ":before-the-damage", spec, td, path, fresh)
            labels.append("used-before-the-damage")
            if damaged is None:
                os.remove(path)
        if damaged is not None:
            with open(path, "wb") as f:
                f.write(damaged)
        _verify_request(sig, spec, td, path, fresh)
    return {"nt": bool(damaged) and damaged != intact, "labels": labels}


@lru_cache(maxsize=None)
def _colliding_seeds(key: str, skip: int = 0):
    """birthday search for two seeds whose configurations share a cache file name"""
    spec = dict(POOL[key])
    seen: dict = {}
    found = 0
    for sd in range(1000, 200000):
        spec["seed"] = sd
        f = L.make_cfg(spec).to_fname()
        if f in seen:
            if found == skip:
                return seen[f], sd
            found += 1
        else:
            seen[f] = sd
    raise core.HarnessError("no file-name collision found")


def _vary(spec, fld):
    if fld == "seed":
        spec["seed"] = spec["seed"] + 1
    elif fld == "grid_n":
        spec["grid_n"] = spec["grid_n"] + 1
        if "endpoint" in spec:
            pass
    elif fld == "ctor":
        spec["ctor"] = "gen_wilson" if spec["ctor"] != "gen_wilson" else "gen_dfs"
        spec["kwargs"] = {}
    elif fld == "kwargs":
        if spec["ctor"] == "gen_wilson":
            raise core.Discard()
        kw = dict(spec.get("kwargs", {}))
        if "p" in kw:
            kw["p"] = 0.9
        else:
            kw["max_tree_depth"] = 3
        spec["kwargs"] = kw
    elif fld == "endpoint":
        ep = dict(spec.get("endpoint", {}))
        ep["deadend_end"] = not ep.get("deadend_end", False)
        spec["endpoint"] = ep
    elif fld == "filters":
        spec["filters"] = list(spec.get("filters", [])) + [{"name": "path_length", "args": [], "kwargs": {"min_length": 3}}]
    elif fld == "filter-args":
        fl = L.json_copy(spec.get("filters", []))
        if not fl:
            raise core.Discard()
        f0 = fl[0]
        if f0["args"]:
            f0["args"][0] = f0["args"][0] + 1
        else:
            k0 = sorted(f0["kwargs"])[0]
            f0["kwargs"][k0] = f0["kwargs"][k0] + 1
        spec["filters"] = fl
    elif fld == "name":
        spec["name"] = spec["name"] + "x"
    elif fld == "n_mazes":
        spec["n_mazes"] = spec["n_mazes"] + 2
    else:
        raise ValueError(fld)


def _structure_offsets(data: bytes) -> list[int]:
    """offsets of the zip structures (local headers incl. names/extra, central directory, end records)"""
    out: set = set()
    zf = zipfile.ZipFile(io.BytesIO(data))
    for zi in zf.infolist():
        h = zi.header_offset
        nlen = int.from_bytes(data[h + 26 : h + 28], "little")
        elen = int.from_bytes(data[h + 28 : h + 30], "little")
        out.update(range(h, h + 30 + nlen + elen))
    out.update(range(zf.start_dir, len(data)))
    return sorted(out)


@lru_cache(maxsize=None)
def _structure_set(data: bytes) -> frozenset:
    return frozenset(_structure_offsets(data))


def _in_structure(data: bytes, k: int) -> bool:
    return k in _structure_set(data)


FOREIGN_FIELDS = ["seed", "grid_n", "ctor", "kwargs", "endpoint", "filters", "filter-args", "name", "n_mazes"]


def _enumerated(keys, trunc_stride, corrupt_stride, modes, all_structure=True, n_collisions=2):
    """every process enumerates the cache file *it* wrote (zip timestamps / compressed sizes differ between processes), taking the
    offsets k with k % nshards == shard of each fault family"""

    def cases(shard, nshards):
        for key in keys:
            fresh, intact, fname, ops = _baseline(key)
            if intact is None:
                if shard == 0:
                    yield {"cfg": key, "fault": {"kind": "missing"}}
                continue
            L_ = len(intact)
            if shard == 0:
                for kind in ("missing", "empty", "intact"):
                    yield {"cfg": key, "fault": {"kind": kind}}
                    yield {"cfg": key, "fault": {"kind": kind, "warm": True}}
            ts = trunc_stride.get(key, trunc_stride.get("*", 16))
            for k in range(L_):
                if k % nshards == shard and (k % ts == 0 or k < 128 or k >= L_ - 128):
                    yield {"cfg": key, "fault": {"kind": "truncate", "at": k}}
                    if (k // nshards) % 11 == 0:
                        yield {"cfg": key, "fault": {"kind": "truncate", "at": k, "warm": True}}
            cs = corrupt_stride.get(key, corrupt_stride.get("*", 23))
            struct = _structure_set(intact) if all_structure else frozenset()
            for mode in modes:
                for k in range(L_):
                    if k % nshards == shard and (k % cs == 0 or k in struct):
                        yield {"cfg": key, "fault": {"kind": "corrupt", "at": k, "mode": mode}}
                        if (k // nshards) % 7 == 0:
                            yield {"cfg": key, "fault": {"kind": "corrupt", "at": k, "mode": mode, "warm": True}}
            for k in range(len(ops) + 1):
                if k % nshards != shard:
                    continue
                yield {"cfg": key, "fault": {"kind": "interrupted", "op": k}}
                if k >= 1 and ops[k - 1][0] == "w" and len(ops[k - 1][2]) >= 2:
                    yield {"cfg": key, "fault": {"kind": "interrupted", "op": k, "half": True}}
            for j, fld in enumerate(FOREIGN_FIELDS):
                if j % nshards == shard:
                    yield {"cfg": key, "fault": {"kind": "foreign", "field": fld}}
                if (j + 5) % nshards == shard:
                    yield {"cfg": key, "fault": {"kind": "edited-config", "field": fld}}
            if key == keys[0]:
                for j in range(2 * len(PAIRS)):
                    if (j + 3) % nshards == shard:
                        yield {"cfg": key, "fault": {"kind": "pair", "i": j // 2, "swap": bool(j % 2)}}
            for j in range(n_collisions):
                if (j + 9) % nshards == shard:
                    yield {"cfg": key, "fault": {"kind": "collision", "skip": j // 2, "swap": bool(j % 2)}}

    return cases


@st.composite
def _live(draw, keys):
    key = draw(st.sampled_from(keys))
    steps = draw(st.lists(st.fixed_dictionaries({"at": st.integers(0, 40), "persistent": st.booleans()}), min_size=1, max_size=3))
    return {"cfg": key, "fault": {"kind": "live", "steps": steps}}


def subs(tier: str):
    q = tier == "quick"
    if q:
        keys = ["A-full", "B-full-filters", "C-minimal"]
        enum = _enumerated(keys, {"A-full": 4, "*": 32}, {"A-full": 11, "*": 47}, ["xorff", "xor01", "zero"])
    else:
        keys = list(POOL)
        enum = _enumerated(keys, {"*": 1}, {"*": 1}, ["xorff", "xor01", "zero"], n_collisions=8)
    return [
        Sub("enumerated-faults", check, "exhaustive", cases=enum, exhaustive_flag=not q),
        Sub("live-write-errors", check, "hypothesis", strategy=lambda: _live(keys), examples=12 if q else 150),
    ]
