#!/bin/sh
# offline setup: make sure hypothesis (and jsonschema, optional) import in /venv; otherwise install into /verif/.deps from the wheelhouse
here="$(cd "$(dirname "$0")" && pwd)"
cd "$here" || exit 2
chmod +x check 2>/dev/null
if ! PYTHONPATH="$here/.deps" /venv/bin/python -c "import hypothesis" 2>/dev/null; then
  /venv/bin/pip install --no-index --no-deps --find-links /opt/veriftools/wheels --target "$here/.deps" hypothesis sortedcontainers attrs || exit 2
fi
PYTHONPATH="$here/.deps" /venv/bin/python -c "import hypothesis, numpy; print('hypothesis', hypothesis.__version__, 'numpy', numpy.__version__)" || exit 2
mkdir -p evidence replays
exit 0
