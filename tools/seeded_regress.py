#!/venv/bin/python
"""re-run the current quick checks against every kept seeded change (no test suite); writes seeded/REGRESSION.json and prints a table.
usage: seeded_regress.py [ID-prefix ...] [--shard i/n] [--merge]
  --shard i/n : only every n-th change (offset i), rows go to seeded/.regress-i-of-n.jsonl (demos are skipped: they were confirmed when the change was kept)
  --merge     : collect the shard files into seeded/REGRESSION.json"""
import json, os, subprocess, sys, glob
here = os.path.dirname(os.path.dirname(os.path.abspath(__file__)))
args = sys.argv[1:]
shard = None
if "--merge" in args:
    rows = []
    for f in sorted(glob.glob(os.path.join(here, "seeded", ".regress-*.jsonl"))):
        rows += [json.loads(l) for l in open(f) if l.strip()]
    rows = list({r["seeded"]: r for r in rows}.values())  # a change evaluated twice: the later row wins
    rows.sort(key=lambda r: (r["seeded"].split("-")[0], int(r["seeded"].split("-")[1])))
    json.dump(rows, open(os.path.join(here, "seeded", "REGRESSION.json"), "w"), indent=1)
    print(len(rows), "rows; not caught by own check:", [r["seeded"] for r in rows if r.get("exit") != 1])
    sys.exit(0)
if "--shard" in args:
    k = args.index("--shard"); shard = tuple(int(x) for x in args[k + 1].split("/")); del args[k:k + 2]
    os.environ["SEEDED_SKIP_DEMO"] = "1"
sel = args
rows = []
_all = sorted(glob.glob(os.path.join(here, "seeded", "C*-*")))
_mine = set(_all[shard[0]::shard[1]]) if shard else set(_all)
for d in sorted(glob.glob(os.path.join(here, "seeded", "C*-*"))):
    name = os.path.basename(d)
    if (sel and not any(name.startswith(x) for x in sel)) or d not in _mine:
        continue
    prop = name.split("-")[0]
    p = subprocess.run([os.path.join(here, "tools", "seeded_eval.py"), d, prop], capture_output=True, text=True)
    try:
        ev = json.loads(p.stdout.strip().splitlines()[-1])
        c = ev.get(f"check_{prop}", {})
        row = {"seeded": name, "applies": ev.get("applies"), "demo_changed": ev.get("demo_mutant_rc"), "demo_clean": ev.get("demo_clean_rc"), "exit": c.get("rc"), "seconds": c.get("s"), "signatures": c.get("signatures", [])[:4]}
    except Exception as e:  # noqa: BLE001
        row = {"seeded": name, "error": str(e), "stderr": p.stderr[-300:]}
    rows.append(row)
    print(json.dumps(row), flush=True)
    if shard:
        open(os.path.join(here, "seeded", f".regress-{shard[0]}-of-{shard[1]}.jsonl"), "a").write(json.dumps(row) + "\n")
out = os.path.join(here, "seeded", "REGRESSION.json")
if not sel and not shard:
    json.dump(rows, open(out, "w"), indent=1)
missed = [r["seeded"] for r in rows if r.get("exit") != 1]
print("MISSED:", missed)
