"""C13 - all graph queries on a maze agree with its connection structure."""

from __future__ import annotations

import itertools

import numpy as np
from hypothesis import strategies as st

from mzverif import core
from mzverif import gen as G
from mzverif import lib as L
from mzverif import model as M
from mzverif.core import Sub, call, require, scribble

ID = "C13"
LEVEL = "exploration"
TECHNIQUE = "exhaustive over all graphs <= 3x3 (every cell, every ordered pair, all short candidate paths, every shortest path for the fork rule) + Hypothesis graphs up to 15x15 / 25x25 + grids of 64..127 cells per side + same-flags-other-shape twins; connection arrays in C / Fortran / moved-axis layout; int8 and int64 arguments, results overwritten by the caller; oracle = adjacency/BFS model built directly from the connection bits; batch edge tests with mixed orientations, stars around a cell and single edges; the same check on several cases at once, one thread each (interleavings sampled)"
RULE = (
    "case = (connection bits[, sampled cells, candidate paths, solution, numpy seed]); per case every query family is compared with "
    "the model: nodes_connected (all ordered pairs), get_coord_neighbors, coord_degrees, gen_connected_component_from, get_nodes, "
    "as_adj_list / connection_list_to_adj_list under the 4 shuffle settings, is_connection on every lattice edge in both "
    "orientations, is_valid_path, from_adj_list round trip, forking / path-following points. Non-trivial = graph with >= 1 "
    "connection and >= 1 wall; distinct by canonical case digest."
)
ASSUMPTIONS = [
    "fork rule as documented: start and end count as forks when they are not dead ends (degree > 1), interior cells when degree > 2",
    "from_adj_list round trip is only asserted on square grids when both the highest row and the highest column index occur in a connection",
    "is_valid_path: a valid path is a non-empty in-grid sequence whose consecutive cells are connected (repeats allowed); empty path -> empty_is_valid",
]


def _valid_path_model(g, a, path, empty_is_valid):
    if len(path) == 0:
        return bool(empty_is_valid)
    r, c = g["r"], g["c"]
    for q in path:
        if not (0 <= q[0] < r and 0 <= q[1] < c):
            return False
    return all(tuple(v) in a[tuple(u)] for u, v in zip(path[:-1], path[1:]))


def _check_graph(g, cells, pairs, paths, np_seed, sig="C13"):
    r, c = g["r"], g["c"]
    a = M.adj(g)
    m = L.lattice(g)
    E = M.edges_of(g)
    Eset = {frozenset(e) for e in E}

    # nodes_connected
    for u, v in pairs:
        dt = np.int8 if ((u[0] + u[1] + v[0]) % 3 == 0 and max(r, c) <= 128) else np.int64
        got = call(f"{sig}:nodes_connected", m.nodes_connected, np.array(u, dtype=dt), np.array(v, dtype=dt))
        require(bool(got) == (tuple(v) in a[tuple(u)]), f"{sig}:nodes_connected", f"{u}->{v}: got {bool(got)}; bits={g['cl']} {r}x{c}")
    # neighbours / components
    for k, u in enumerate(cells):
        arg = (np.array(u) if (k % 4 == 0 or max(r, c) > 128) else np.array(u, dtype=np.int8)) if k % 2 == 0 else tuple(u)
        nb_raw = call(f"{sig}:get_coord_neighbors", m.get_coord_neighbors, arg)
        nb = L.as_cells(nb_raw)
        scribble(nb_raw)
        require(len(nb) == len(set(nb)) and set(nb) == set(a[tuple(u)]), f"{sig}:get_coord_neighbors", f"{u}: got {nb}, model {sorted(a[tuple(u)])}; bits={g['cl']} {r}x{c}")
        comp = call(f"{sig}:component", m.gen_connected_component_from, np.array(u, dtype=np.int8 if (k % 3 == 1 and max(r, c) <= 128) else np.int64))
        comp_raw = comp
        comp = L.as_cells(comp)
        scribble(comp_raw)
        want = M.component(a, tuple(u))
        require(len(comp) == len(set(comp)) and set(comp) == want, f"{sig}:component", f"from {u}: got {len(comp)} cells, model {len(want)}; bits={g['cl']} {r}x{c}")
    # degrees
    deg = call(f"{sig}:coord_degrees", m.coord_degrees)
    require(tuple(np.asarray(deg).shape) == (r, c), f"{sig}:coord_degrees:shape", f"{np.asarray(deg).shape}")
    for (i, j), nbrs in a.items():
        require(int(deg[i, j]) == len(nbrs), f"{sig}:coord_degrees", f"cell {(i, j)}: got {int(deg[i, j])}, model {len(nbrs)}; bits={g['cl']} {r}x{c}")
    scribble(deg)
    deg2 = call(f"{sig}:coord_degrees", m.coord_degrees)
    require(all(int(deg2[i, j]) == len(nbrs) for (i, j), nbrs in a.items()), f"{sig}:coord_degrees", "a second call (after the caller overwrote the first result) gives other degrees")
    # nodes
    nodes_raw = call(f"{sig}:get_nodes", m.get_nodes)
    nodes = L.as_cells(nodes_raw)
    scribble(nodes_raw)
    nodes2 = L.as_cells(call(f"{sig}:get_nodes", m.get_nodes))
    require(sorted(nodes2) == sorted(nodes), f"{sig}:get_nodes", "a second call (after the caller overwrote the first result) lists other cells")
    require(sorted(nodes) == sorted(a.keys()), f"{sig}:get_nodes", f"got {len(nodes)} nodes for {r}x{c}")
    # adjacency-list views
    from maze_dataset.token_utils import connection_list_to_adj_list, is_connection

    for k, (d0, d1) in enumerate(itertools.product([False, True], repeat=2)):
        np.random.seed((np_seed + k) % (2**32))
        for nm, fn in (("as_adj_list", lambda: m.as_adj_list(shuffle_d0=d0, shuffle_d1=d1)),
                       ("connection_list_to_adj_list", lambda: connection_list_to_adj_list(M.g_cl(g), d0, d1))):
            al = np.asarray(call(f"{sig}:{nm}", fn))
            require(al.shape == (len(E), 2, 2), f"{sig}:{nm}:shape", f"shape {al.shape}, {len(E)} connections")
            got = [frozenset((tuple(int(x) for x in e[0]), tuple(int(x) for x in e[1]))) for e in al]
            require(len(got) == len(set(got)) and set(got) == Eset and all(len(e) == 2 for e in got),
                    f"{sig}:{nm}", f"shuffle=({d0},{d1}): entries differ from the connection set; bits={g['cl']} {r}x{c}")
    # batch edge test on every lattice edge, both orientations
    LE = M.lattice_edges(r, c)
    if LE:
        # batches: every edge in both orientations; the same edges with a minority / a majority written the other way round (a pure
        # function of the edge index); the edges written from one cell to each of its lattice neighbours; single edges
        batches = [[[u, v] for u, v in LE] + [[v, u] for u, v in LE],
                   [[v, u] if (k * 7 + len(LE)) % 4 == 0 else [u, v] for k, (u, v) in enumerate(LE)],
                   [[u, v] if (k * 5 + len(LE)) % 4 == 0 else [v, u] for k, (u, v) in enumerate(LE)]]
        hub = sorted(a)[(len(LE) * 3) % len(a)]
        star = [[hub, (hub[0] + di, hub[1] + dj)] for di, dj in ((-1, 0), (0, 1), (1, 0), (0, -1)) if 0 <= hub[0] + di < r and 0 <= hub[1] + dj < c]
        batches += [star, star[::-1], [batches[1][0]], [batches[2][-1]]]
        for bi, batch in enumerate(batches):
            if not batch:
                continue
            edges = np.array(batch)
            want = [frozenset((tuple(e[0]), tuple(e[1]))) in Eset for e in batch]
            # the library's own edge arrays (lattice_connection_array, what the tokenizers pass in) are int8; callers also pass int64
            for dt in ((np.int64, np.int8) if max(r, c) <= 127 else (np.int64,)):
                flags = np.asarray(call(f"{sig}:is_connection", is_connection, edges.astype(dt), M.g_cl(g)))
                require(flags.shape == (len(want),) and [bool(x) for x in flags] == want, f"{sig}:is_connection",
                        f"batch {bi}: flags differ from model for {np.dtype(dt).name} edges (first at edge {next((edges[k].tolist() for k in range(len(want)) if k < len(flags) and bool(flags[k]) != want[k]), None)}); bits={g['cl']} {r}x{c}")
    # path validation
    for path, eiv in paths:
        arr = np.array(path, dtype=int).reshape(-1, 2)
        got = call(f"{sig}:is_valid_path", m.is_valid_path, arr, eiv)
        want = _valid_path_model(g, a, path, eiv)
        require(bool(got) == want, f"{sig}:is_valid_path", f"path {path} empty_is_valid={eiv}: got {bool(got)}, model {want}; bits={g['cl']} {r}x{c}")
    # rebuild from adjacency list (square only)
    if r == c and E:
        rows = {x[0] for e in E for x in e}
        cols = {x[1] for e in E for x in e}
        if (r - 1) in rows and (c - 1) in cols:
            from maze_dataset.maze.lattice_maze import LatticeMaze

            np.random.seed(np_seed % (2**32))
            m2 = call(f"{sig}:from_adj_list", lambda: LatticeMaze.from_adj_list(m.as_adj_list()))
            require(L.g_of(m2) == g, f"{sig}:from_adj_list", f"rebuilt {L.g_of(m2)} from {g}")
    nt = 0 < len(E) < len(LE)
    return nt


def _check_forks(g, sol, sig="C13"):
    a = M.adj(g)
    sm = L.solved(g, sol, dtype=L.provenance([g, sol], g))
    idx_f, co_f = call(f"{sig}:forking_points", sm.get_solution_forking_points)
    idx_p, co_p = call(f"{sig}:path_following_points", sm.get_solution_path_following_points)
    idx_f = [int(i) for i in idx_f]
    idx_p = [int(i) for i in idx_p]
    n = len(sol)
    want_f = []
    for i, u in enumerate(sol):
        d = len(a[tuple(u)])
        thr = 1 if (i == 0 or i == n - 1) else 2
        if d > thr:
            want_f.append(i)
    require(idx_f == want_f, f"{sig}:forking_points", f"got {idx_f}, rule gives {want_f}; sol={sol} bits={g['cl']}")
    require(sorted(idx_f + idx_p) == list(range(n)) and not (set(idx_f) & set(idx_p)), f"{sig}:fork-partition",
            f"forks {idx_f} + following {idx_p} do not partition 0..{n - 1}")
    require(L.as_cells(co_f) == [tuple(sol[i]) for i in idx_f], f"{sig}:forking_coords", f"coords {L.as_cells(co_f)} vs solution at {idx_f}")
    require(L.as_cells(co_p) == [tuple(sol[i]) for i in idx_p], f"{sig}:following_coords", f"coords {L.as_cells(co_p)} vs solution at {idx_p}")


def check(case: dict):
    g = case["g"]
    r, c = g["r"], g["c"]
    if case.get("forks_only", False):
        _check_forks(g, case["sol"])
        E = M.n_edges(g)
        return {"nt": 0 < E < len(M.lattice_edges(r, c)) and len(case["sol"]) >= 2, "labels": ["forks"]}
    allc = [(i, j) for i in range(r) for j in range(c)]
    if case.get("full", False):
        cells = allc
        pairs = [(u, v) for u in allc for v in allc]
    else:
        cells = [tuple(u) for u in case["cells"]]
        pairs = [(tuple(u), tuple(v)) for u, v in case["pairs"]]
        # plus every lattice-adjacent ordered pair
        for u, v in M.lattice_edges(r, c):
            pairs.append((u, v))
            pairs.append((v, u))
    paths = [(p, bool(e)) for p, e in case.get("paths", [])]
    if case.get("short_paths", False):
        pool = allc + [(-1, 0), (0, c), (r, 0)]
        paths += [([], True), ([], False)]
        for k in (1, 2, 3):
            for seq in itertools.product(pool, repeat=k):
                paths.append(([list(q) for q in seq], False))
    nt = _check_graph(g, cells, pairs, paths, case.get("np_seed", 0))
    labels = ["oblong" if r != c else "square"]
    if case.get("sol"):
        _check_forks(g, case["sol"])
        labels.append("forks")
    return {"nt": nt, "labels": labels}


def _exhaustive_medium(shard, nshards):
    yield from _exhaustive_cases(shard, nshards, G.medium_shapes())


def _exhaustive_cases(shard, nshards, shapes=None):
    k = 0
    for r, c in (shapes or G.small_shapes()):
        for g in G.all_graphs(r, c):
            k += 1
            if k % nshards != shard:
                continue
            yield {"g": g, "full": True, "short_paths": r * c <= 4, "np_seed": k}


def _exhaustive_fork_cases(shard, nshards):
    """all graphs <= 3x3 x all ordered pairs x every shortest path (<= 8)"""
    k = 0
    for r, c in G.small_shapes():
        for g in G.all_graphs(r, c):
            k += 1
            if k % nshards != shard:
                continue
            a = M.adj(g)
            cells = sorted(a)
            for s in cells:
                for e in cells:
                    for p in M.all_shortest_paths(a, s, e, cap=8):
                        yield {"g": g, "forks_only": True, "sol": [list(q) for q in p]}


@st.composite
def _walk(draw, g, a):
    r, c = g["r"], g["c"]
    u = (draw(st.integers(0, r - 1)), draw(st.integers(0, c - 1)))
    path = [u]
    n = draw(st.integers(0, 12))
    for _ in range(n):
        nb = sorted(a[path[-1]])
        if not nb:
            break
        path.append(draw(st.sampled_from(nb)))
    mode = draw(st.sampled_from(["valid", "valid", "break", "oob", "stay"]))
    path = [list(q) for q in path]
    if mode == "break" and len(path) >= 1:
        k = draw(st.integers(0, len(path) - 1))
        path[k] = [draw(st.integers(0, r - 1)), draw(st.integers(0, c - 1))]
    elif mode == "oob":
        k = draw(st.integers(0, len(path) - 1))
        path[k] = draw(st.sampled_from([[-1, 0], [0, -1], [r, 0], [0, c], [r, c], [-1, -1]]))
    elif mode == "stay":
        k = draw(st.integers(0, len(path) - 1))
        path.insert(k, list(path[k]))
    return path


@st.composite
def _random_case(draw, hi):
    g = draw(G.shaped_graphs(2, hi, square=False))
    r, c = g["r"], g["c"]
    a = M.adj(g)
    cell = st.tuples(st.integers(0, r - 1), st.integers(0, c - 1)).map(list)
    cells = draw(st.lists(cell, min_size=1, max_size=6))
    pairs = draw(st.lists(st.tuples(cell, cell).map(list), min_size=1, max_size=10))
    paths = [[draw(_walk(g, a)), draw(st.booleans())] for _ in range(draw(st.integers(1, 4)))]
    paths.append([[], draw(st.booleans())])
    case = {"g": g, "cells": cells, "pairs": pairs, "paths": paths, "np_seed": draw(st.integers(0, 2**32 - 1))}
    if draw(st.booleans()):
        s = tuple(cells[0])
        comp = sorted(M.component(a, s))
        e = draw(st.sampled_from(comp))
        case["sol"] = [list(q) for q in M.shortest_path(a, s, e)]
    return case


def check_generated(case: dict):
    """mazes as the generators hand them out (generation metadata attached: recorded start, visited cells, flags): the queries must
    describe the connection bits, whatever the metadata says"""
    m = call("C13:generator", L.run_generator, case)
    g = L.g_of(m)
    r, c = g["r"], g["c"]
    a = M.adj(g)
    for k, u in enumerate(sorted(a)):
        if k % max(1, case.get("stride", 1)) != 0:
            continue
        comp = call("C13:generated:component", m.gen_connected_component_from, np.array(u))
        want = M.component(a, u)
        got = L.as_cells(comp)
        require(len(got) == len(set(got)) and set(got) == want, "C13:generated:component",
                f"{case['gen']} {case.get('kw')} on {r}x{c}: component from {u} has {len(got)} cells, {len(want)} are reachable through the connections; bits={g['cl']}")
        nb = L.as_cells(call("C13:generated:get_coord_neighbors", m.get_coord_neighbors, np.array(u)))
        require(set(nb) == set(a[u]) and len(nb) == len(set(nb)), "C13:generated:get_coord_neighbors", f"{u}: {nb} vs {sorted(a[u])}")
    deg = call("C13:generated:coord_degrees", m.coord_degrees)
    require(all(int(deg[i, j]) == len(nbrs) for (i, j), nbrs in a.items()), "C13:generated:coord_degrees", "degrees differ from the connection bits")
    E = M.n_edges(g)
    return {"nt": 0 < E < len(M.lattice_edges(r, c)), "labels": ["generated", case["gen"]]}


@st.composite
def _generated(draw, hi):
    case = draw(G.generator_call(lo=2, hi=hi, square=False))
    if case["gen"] in ("gen_percolation", "gen_dfs_percolation") and draw(st.booleans()):
        case["kw"]["p"] = draw(st.sampled_from([0.2, 0.3, 0.5, 0.7]))
    case["stride"] = 1 if case["r"] * case["c"] <= 40 else 3
    return case


def check_twins(case: dict):
    """mazes of different shapes whose connection arrays hold the same flags in the same flat order (3x4 / 4x3 / 2x6 / 6x2 ...), queried
    one after the other in one process: an answer must depend on the shape too, not only on the flags"""
    nt = False
    for r, c in case["order"]:
        g = {"r": r, "c": c, "cl": case["cl"]}
        require(not M.boundary_bits_set(g), "C13:harness:twin-invalid", f"{r}x{c} {case['cl']}")
        allc = [(i, j) for i in range(r) for j in range(c)]
        pairs = [(u, v) for u in allc for v in allc][:: max(1, len(allc) // 6)]
        for u, v in M.lattice_edges(r, c):
            pairs += [(u, v), (v, u)]
        nt = _check_graph(g, allc, pairs, [], case.get("np_seed", 0), sig="C13:twins") or nt
    return {"nt": nt, "labels": ["twins", "x".join(f"{r}{c}" for r, c in case["order"][:2])]}


def _twin_shapes():
    out = []
    for cells in (4, 6, 8, 9, 12, 16, 18, 20, 24):
        shapes = [(r, cells // r) for r in range(1, cells + 1) if cells % r == 0]
        out += [(a, b) for a in shapes for b in shapes if a != b]
    return out


@st.composite
def _twins(draw):
    (r1, c1), (r2, c2) = draw(st.sampled_from(_twin_shapes()))
    n = 2 * r1 * c1
    ok1 = {M.edge_bit(r1, c1, u, v) for u, v in M.lattice_edges(r1, c1)}
    ok2 = {M.edge_bit(r2, c2, u, v) for u, v in M.lattice_edges(r2, c2)}
    both = sorted(ok1 & ok2)
    p = draw(st.sampled_from([0.0, 0.3, 0.6, 1.0]))
    picks = draw(st.lists(st.floats(0, 1, allow_nan=False), min_size=len(both), max_size=len(both)))
    bits = ["0"] * n
    for k, x in zip(both, picks):
        if x < p:
            bits[k] = "1"
    order = [[r1, c1], [r2, c2], [r1, c1]]
    return {"cl": "".join(bits), "order": order, "np_seed": draw(st.integers(0, 2**32 - 1))}


@st.composite
def _big_case(draw):
    """grids of 64..127 cells per side: index arithmetic (row + col, row * cols + col, 2 * row + 1) leaves the int8 range"""
    base = draw(G.big_int8_case(sizes=(127, 70, 100, 65, 64)))
    g = base["g"]
    n = g["r"]
    hi_cell = st.tuples(st.integers(n - 4, n - 1), st.integers(n - 4, n - 1)).map(list)
    any_cell = st.tuples(st.integers(0, n - 1), st.integers(0, n - 1)).map(list)
    cells = draw(st.lists(st.one_of(hi_cell, any_cell), min_size=2, max_size=5))
    pairs = draw(st.lists(st.tuples(any_cell, any_cell).map(list), min_size=1, max_size=6))
    return {"g": g, "cells": cells, "pairs": pairs, "paths": [[base["sol"], False]], "np_seed": draw(st.integers(0, 2**32 - 1)), "sol": base["sol"]}


def subs(tier: str):
    q = tier == "quick"
    return [
        Sub("exhaustive<=3x3", check, "exhaustive", cases=_exhaustive_cases, exhaustive_flag=True),
        Sub("forks-exhaustive<=3x3", check, "exhaustive", cases=_exhaustive_fork_cases, exhaustive_flag=True),
        *([] if q else [Sub("exhaustive-2x4-2x5-1xN", check, "exhaustive", cases=_exhaustive_medium, exhaustive_flag=True)]),
        Sub("random", check, "hypothesis", strategy=lambda: _random_case(15 if q else 25), examples=40 if q else 2000),
        Sub("concurrent-threads", core.threaded(check), "hypothesis", strategy=core.threaded_strategy(lambda: _random_case(8 if q else 12)), examples=4 if q else 100, ambient=False),
        Sub("generated-mazes-with-metadata", check_generated, "hypothesis", strategy=lambda: _generated(8 if q else 12), examples=40 if q else 800),
        Sub("same-flags-other-shape", check_twins, "hypothesis", strategy=_twins, examples=20 if q else 400),
        Sub("large-grids", check, "hypothesis", strategy=_big_case, examples=3 if q else 20),
    ]
