#!/venv/bin/python
"""automatic sensitivity sweep: syntactic mutants of the functions each property is anchored in, run against that property's quick check.

  automutate.py list  [PROP ...]                 -> number of candidate mutants per property
  automutate.py run   [PROP ...] [--per N] [--slots K] [--nproc P] [--seed S] [--out FILE] [--suite]

A mutant is one small edit (comparison operator, and/or, +/-, integer constant +-1, True/False, dropped `not`, dropped statement)
inside a function that overlaps the property's anchor ranges (anchors refer to the pinned commit; they are mapped to function
names there and looked up again in the working tree). The mutated package is written to a scratch directory that is put first on
PYTHONPATH through VERIF_REPO; the check runs from a private copy of /verif (git worktree of HEAD) so that evidence files of the
real tree are not touched. Survivors are candidates for inspection: either equivalent mutants or holes in a check.
With --suite the repository's own test suite is run on every survivor (a survivor that also passes the suite is the realistic case).
"""
import argparse, ast, json, os, random, re, shutil, subprocess, sys, tempfile, time
from concurrent.futures import ThreadPoolExecutor

HERE = os.path.dirname(os.path.dirname(os.path.abspath(__file__)))
REPO = "/repo"
PINNED = "8d34da6"

CMP = {ast.Lt: "<=", ast.LtE: "<", ast.Gt: ">=", ast.GtE: ">", ast.Eq: "!=", ast.NotEq: "==", ast.Is: "is not", ast.IsNot: "is", ast.In: "not in", ast.NotIn: "in"}
CMP_TXT = {ast.Lt: "<", ast.LtE: "<=", ast.Gt: ">", ast.GtE: ">=", ast.Eq: "==", ast.NotEq: "!=", ast.Is: "is", ast.IsNot: "is not", ast.In: "in", ast.NotIn: "not in"}


def anchor_functions(prop: dict) -> dict:
    """{file: set(function qualnames)} overlapping the anchor ranges, resolved on the pinned commit"""
    out: dict = {}
    ranges: dict = {}
    for grp in ("mechanism", "state"):
        for m in prop["anchors"].get(grp, []) or []:
            for part in str(m.get("where", "")).split(";"):
                part = part.strip()
                if ":" not in part:
                    continue
                f, rs = part.split(":", 1)
                for r in rs.split(","):
                    r = r.strip()
                    mm = re.match(r"^(\d+)(?:-(\d+))?$", r)
                    if mm:
                        a = int(mm.group(1)); b = int(mm.group(2) or a)
                        ranges.setdefault(f.strip(), []).append((a, b))
    for f, rs in ranges.items():
        try:
            src = subprocess.run(["git", "-C", REPO, "show", f"{PINNED}:{f}"], capture_output=True, text=True, check=True).stdout
        except subprocess.CalledProcessError:
            continue
        tree = ast.parse(src)
        names = set()

        def visit(node, prefix=""):
            for ch in ast.iter_child_nodes(node):
                if isinstance(ch, (ast.FunctionDef, ast.AsyncFunctionDef)):
                    q = prefix + ch.name
                    if any(not (ch.end_lineno < a or ch.lineno > b) for a, b in rs):
                        names.add(q)
                    visit(ch, q + ".")
                elif isinstance(ch, ast.ClassDef):
                    visit(ch, prefix + ch.name + ".")
                else:
                    visit(ch, prefix)

        visit(tree)
        if names:
            out[f] = names
    return out


def _offsets(src: str):
    lines = src.splitlines(keepends=True)
    starts = [0]
    for ln in lines:
        starts.append(starts[-1] + len(ln))
    # ast col offsets are in utf8 bytes; the sources here are ascii in the mutated regions - convert conservatively
    def pos(lineno, col):
        line = lines[lineno - 1]
        return starts[lineno - 1] + len(line.encode("utf8")[:col].decode("utf8", "ignore"))
    return pos


def mutants_for_file(path_rel: str, funcs: set) -> list:
    """list of (description, start, end, replacement) edits on the working-tree source"""
    src = open(os.path.join(REPO, path_rel)).read()
    tree = ast.parse(src)
    pos = _offsets(src)
    edits = []

    def span(n):
        return pos(n.lineno, n.col_offset), pos(n.end_lineno, n.end_col_offset)

    def in_docstring_or_annotation(n, parents):
        return any(isinstance(p, (ast.AnnAssign,)) and getattr(p, "annotation", None) is n for p in parents)

    def walk_fn(fn, qual):
        body_nodes = []
        for st in fn.body:
            body_nodes.append(st)
        for top in body_nodes:
            for node in ast.walk(top):
                if isinstance(node, (ast.FunctionDef, ast.AsyncFunctionDef, ast.ClassDef)) and node is not top:
                    continue
                ln = getattr(node, "lineno", None)
                if ln is None:
                    continue
                tag = f"{path_rel}:{qual}:{ln}"
                if isinstance(node, ast.Compare) and len(node.ops) == 1 and type(node.ops[0]) in CMP:
                    a = span(node.left)[1]
                    b = span(node.comparators[0])[0]
                    gap = src[a:b]
                    old = CMP_TXT[type(node.ops[0])]
                    m = re.search(r"(?<![=!<>])" + re.escape(old) + r"(?![=])", gap) if old in ("<", ">", "==", "!=", "<=", ">=") else re.search(r"\b" + old.replace(" ", r"\s+") + r"\b", gap)
                    if m:
                        edits.append((f"{tag} cmp {old} -> {CMP[type(node.ops[0])]}", a + m.start(), a + m.end(), CMP[type(node.ops[0])]))
                elif isinstance(node, ast.BoolOp) and len(node.values) >= 2:
                    a = span(node.values[0])[1]
                    b = span(node.values[1])[0]
                    old = "and" if isinstance(node.op, ast.And) else "or"
                    m = re.search(r"\b" + old + r"\b", src[a:b])
                    if m:
                        new = "or" if old == "and" else "and"
                        edits.append((f"{tag} {old} -> {new}", a + m.start(), a + m.end(), new))
                elif isinstance(node, ast.BinOp) and isinstance(node.op, (ast.Add, ast.Sub)):
                    a = span(node.left)[1]
                    b = span(node.right)[0]
                    old = "+" if isinstance(node.op, ast.Add) else "-"
                    m = re.search(re.escape(old), src[a:b])
                    if m:
                        new = "-" if old == "+" else "+"
                        edits.append((f"{tag} binop {old} -> {new}", a + m.start(), a + m.end(), new))
                elif isinstance(node, ast.UnaryOp) and isinstance(node.op, ast.Not):
                    s, e = span(node)
                    os_, oe = span(node.operand)
                    edits.append((f"{tag} drop not", s, e, "(" + src[os_:oe] + ")"))
                elif isinstance(node, ast.Constant) and isinstance(node.value, bool):
                    s, e = span(node)
                    if src[s:e] in ("True", "False"):
                        edits.append((f"{tag} {src[s:e]} -> {not node.value}", s, e, str(not node.value)))
                elif isinstance(node, ast.Constant) and isinstance(node.value, int) and not isinstance(node.value, bool) and 0 <= node.value <= 3:
                    s, e = span(node)
                    if src[s:e].isdigit():
                        edits.append((f"{tag} const {node.value} -> {node.value + 1}", s, e, str(node.value + 1)))
                        if node.value > 0:
                            edits.append((f"{tag} const {node.value} -> {node.value - 1}", s, e, str(node.value - 1)))
                elif isinstance(node, ast.Expr) and isinstance(node.value, ast.Call) and node in ast.walk(top):
                    s, e = span(node)
                    edits.append((f"{tag} drop statement `{src[s:e][:40]}`", s, e, "pass"))
                elif isinstance(node, ast.AugAssign):
                    s, e = span(node)
                    edits.append((f"{tag} drop statement `{src[s:e][:40]}`", s, e, "pass"))
                elif isinstance(node, ast.Assign) and any(isinstance(t, ast.Subscript) for t in node.targets):
                    s, e = span(node)
                    edits.append((f"{tag} drop statement `{src[s:e][:40]}`", s, e, "pass"))

    def visit(node, prefix=""):
        for ch in ast.iter_child_nodes(node):
            if isinstance(ch, (ast.FunctionDef, ast.AsyncFunctionDef)):
                q = prefix + ch.name
                if q in funcs:
                    # skip the docstring
                    fn = ch
                    if fn.body and isinstance(fn.body[0], ast.Expr) and isinstance(getattr(fn.body[0], "value", None), ast.Constant) and isinstance(fn.body[0].value.value, str):
                        fn = ast.FunctionDef(name=ch.name, args=ch.args, body=ch.body[1:] or [ast.Pass()], decorator_list=[], lineno=ch.lineno)
                    walk_fn(fn, q)
                visit(ch, q + ".")
            elif isinstance(ch, ast.ClassDef):
                visit(ch, prefix + ch.name + ".")
            else:
                visit(ch, prefix)

    visit(tree)
    # de-duplicate
    seen, out = set(), []
    for d, s, e, new in edits:
        if (s, e, new) not in seen and src[s:e] != new:
            seen.add((s, e, new))
            out.append({"file": path_rel, "desc": d, "start": s, "end": e, "new": new, "old": src[s:e]})
    return out


def candidates(prop: dict) -> list:
    out = []
    for f, funcs in anchor_functions(prop).items():
        if os.path.exists(os.path.join(REPO, f)):
            out += mutants_for_file(f, funcs)
    return out


def run_one(slot_dir: str, prop_id: str, mut: dict, nproc: int, tier: str, suite: bool) -> dict:
    scratch = tempfile.mkdtemp(prefix=f"mzmut-{prop_id}-", dir="/tmp")
    res = {"property": prop_id, **{k: mut[k] for k in ("file", "desc", "old", "new")}}
    try:
        shutil.copytree(os.path.join(REPO, "maze_dataset"), os.path.join(scratch, "maze_dataset"), ignore=shutil.ignore_patterns("__pycache__"))
        for extra in ("tests", "pyproject.toml", "README.md"):
            pass
        p = os.path.join(scratch, mut["file"])
        src = open(p).read()
        assert src[mut["start"] : mut["end"]] == mut["old"]
        open(p, "w").write(src[: mut["start"]] + mut["new"] + src[mut["end"] :])
        env = dict(os.environ, PYTHONPATH=scratch, PYTHONDONTWRITEBYTECODE="1")
        imp = subprocess.run(["/venv/bin/python", "-W", "ignore", "-c", "import maze_dataset, maze_dataset.dataset.rasterized, maze_dataset.plotting, maze_dataset.tokenization.all_tokenizers"], env=env, capture_output=True, text=True, timeout=300)
        if imp.returncode != 0:
            res["outcome"] = "import-fails"
            return res
        t = time.time()
        env2 = dict(os.environ, VERIF_REPO=scratch, VERIF_NPROC=str(nproc), VERIF_TIMEOUT=os.environ.get("AUTOMUTATE_TIMEOUT", "300"))
        try:
            c = subprocess.run(["./check", prop_id, "--tier", tier], cwd=slot_dir, env=env2, capture_output=True, text=True, timeout=int(os.environ.get("AUTOMUTATE_TIMEOUT", "300")) + 120)
            rc, out = c.returncode, c.stdout + c.stderr
        except subprocess.TimeoutExpired:
            rc, out = 2, "timeout"
        res["seconds"] = round(time.time() - t)
        res["exit"] = rc
        res["signatures"] = sorted({l.split("=", 1)[1].strip() for l in out.splitlines() if l.strip().startswith("signature=")})[:5]
        res["outcome"] = {0: "SURVIVED", 1: "killed", 2: "inconclusive"}.get(rc, f"rc{rc}")
        if rc == 2:
            res["tail"] = out[-400:]
        if rc == 0 and suite:
            # the repository's suite against the mutated package
            wt = tempfile.mkdtemp(prefix="mzmut-suite-", dir="/tmp")
            os.rmdir(wt)
            subprocess.run(["git", "-C", REPO, "worktree", "add", "-q", "--detach", wt, "HEAD"], capture_output=True)
            try:
                shutil.copy(p, os.path.join(wt, mut["file"]))
                s = subprocess.run("/venv/bin/python -m pytest -q -p no:cacheprovider --timeout=900 -x tests 2>&1 | tail -1", shell=True, cwd=wt, env=dict(os.environ, PYTHONPATH=wt), capture_output=True, text=True, timeout=3600)
                res["suite"] = s.stdout.strip()[-120:]
            finally:
                subprocess.run(["git", "-C", REPO, "worktree", "remove", "--force", wt], capture_output=True)
                shutil.rmtree(wt, ignore_errors=True)
        return res
    except Exception as e:  # noqa: BLE001
        res["outcome"] = f"error: {e}"
        return res
    finally:
        shutil.rmtree(scratch, ignore_errors=True)


def main():
    ap = argparse.ArgumentParser()
    ap.add_argument("cmd", choices=["list", "run"])
    ap.add_argument("props", nargs="*")
    ap.add_argument("--per", type=int, default=20)
    ap.add_argument("--slots", type=int, default=4)
    ap.add_argument("--nproc", type=int, default=4)
    ap.add_argument("--seed", type=int, default=1)
    ap.add_argument("--tier", default="quick")
    ap.add_argument("--out", default="/tmp/automutate.jsonl")
    ap.add_argument("--suite", action="store_true")
    a = ap.parse_args()
    props = [json.loads(l) for l in open(os.path.join(HERE, "properties.jsonl"))]
    props = [p for p in props if not a.props or p["id"] in a.props]
    jobs = []
    for p in props:
        c = candidates(p)
        if a.cmd == "list":
            fns = anchor_functions(p)
            print(p["id"], len(c), {f: sorted(v)[:8] for f, v in fns.items()})
            continue
        rnd = random.Random(f"{a.seed}-{p['id']}")
        rnd.shuffle(c)
        jobs += [(p["id"], m) for m in c[: a.per]]
    if a.cmd == "list":
        return
    slots = []
    for k in range(a.slots):
        d = f"/tmp/mzmut-verif-{k}"
        subprocess.run(["git", "-C", HERE, "worktree", "remove", "--force", d], capture_output=True)
        shutil.rmtree(d, ignore_errors=True)
        subprocess.run(["git", "-C", HERE, "worktree", "add", "-q", "--detach", d, "HEAD"], check=True)
        slots.append(d)
    import queue

    free = queue.Queue()
    for d in slots:
        free.put(d)

    def work(job):
        d = free.get()
        try:
            return run_one(d, job[0], job[1], a.nproc, a.tier, a.suite)
        finally:
            free.put(d)

    with open(a.out, "a") as fh, ThreadPoolExecutor(max_workers=a.slots) as ex:
        for r in ex.map(work, jobs):
            fh.write(json.dumps(r) + "\n")
            fh.flush()
            print(r["property"], r["outcome"], r.get("seconds"), r["desc"], r.get("signatures", [])[:2], flush=True)
    for d in slots:
        subprocess.run(["git", "-C", HERE, "worktree", "remove", "--force", d], capture_output=True)


if __name__ == "__main__":
    main()
