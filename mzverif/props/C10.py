"""C10 - pixel and ASCII renderings are faithful and invertible."""

from __future__ import annotations

import random

import numpy as np
from hypothesis import strategies as st

from mzverif import core
from mzverif import gen as G
from mzverif import lib as L
from mzverif import model as M
from mzverif.core import Sub, call, require, scribble

ID = "C10"
LEVEL = "exploration"
TECHNIQUE = "exhaustive over graphs <= 3x3 x kinds x endpoint pairs x every shortest path x option sequences + every valid (also non-shortest) solution on shapes <= 2x3 + Hypothesis up to 12x12 + grids of 33..127 cells per side with int8 coordinates; oracle = independent renderer (pixel-for-pixel and character-for-character) and round trip through from_pixels/from_ascii; the same check on several cases at once, one thread each (interleavings sampled)"
RULE = (
    "case = (connection bits, kind, solution/endpoints, sequence of (show_endpoints, show_solution) combinations rendered on the same object). quick: all graphs on shapes with <= 7 lattice "
    "edges completely, every 3x3 graph with 6 seeded endpoint pairs; thorough: everything <= 3x3. random: graphs up to 12x12 (20x20 "
    "thorough), square and oblong. Non-trivial = >= 1 connection, >= 1 wall and a solution of >= 3 cells; distinct by case digest."
)
ASSUMPTIONS = [
    "accepted option combinations are (True,True), (True,False), (False,False); (False,True) is documented to raise and is outside the domain",
    "read-back is asserted only for the full rendering (True,True) with start != end and a shortest-path solution, as the statement says; "
    "drawing is asserted for every valid solution (self-avoiding walk along connections, also one cell long, also the long way round a cycle)",
]

OPTS = [(True, True), (True, False), (False, False)]


def check(case: dict):
    """one maze object, rendered with a sequence of option combinations (a later rendering must not depend on an earlier one)"""
    g, kind, sol = case["g"], case["kind"], case.get("sol")
    r, c = g["r"], g["c"]
    M.sync_palette()
    m = L.make_kind(kind, g, sol, dtype=L.provenance(case, g))
    start = tuple(sol[0]) if kind != "lattice" else None
    end = tuple(sol[-1]) if kind != "lattice" else None
    labels = [kind, "oblong" if r != c else "square", f"seq{len(case['seq'])}"]
    # reading back is promised when start and end differ and the solution is a shortest path; drawing is promised for every solution
    readback = True
    if kind == "solved":
        d = M.bfs(M.adj(g), start).get(end)
        readback = start != end and d == len(sol) - 1
        if not readback:
            labels.append("non-shortest-solution" if start != end else "one-cell-solution")
    for step, (se, ss) in enumerate(case["seq"]):
        sig = f"C10:{kind}:({'T' if se else 'F'},{'T' if ss else 'F'})"
        hist = f"; rendered before on the same object: {case['seq'][:step]}" if step else ""
        want = M.render(g, start, end, sol if kind == "solved" else None, se, ss)
        img = call(f"{sig}:as_pixels", m.as_pixels, show_endpoints=se, show_solution=ss)
        img = np.asarray(img)
        require(img.shape == (2 * r + 1, 2 * c + 1, 3), f"{sig}:pixels-shape", f"{img.shape} for {r}x{c}")
        diff = M.first_pixel_diff(M.img_to_lists(img), want)
        require(diff is None, f"{sig}:pixels-differ", f"{diff}; bits={g['cl']} {r}x{c} sol={sol}{hist}")
        txt = call(f"{sig}:as_ascii", m.as_ascii, show_endpoints=se, show_solution=ss)
        want_txt = M.render_ascii(want)
        require(txt == want_txt, f"{sig}:ascii-differs", f"got\n{txt}\nexpected\n{want_txt}{hist}")
        labels.append(f"opts:{int(se)}{int(ss)}")
        if se and ss and readback:
            cls = L.KIND_CLASS[kind]
            for nm, fn in (("from_pixels", lambda: cls.from_pixels(img)), ("from_ascii", lambda: cls.from_ascii(txt))):
                back = call(f"{sig}:{nm}", fn)
                require(type(back) is cls, f"{sig}:{nm}:kind", f"read back {type(back).__name__}, expected {cls.__name__}")
                require(L.g_of(back) == g, f"{sig}:{nm}:connections", f"read back {L.g_of(back)} from {g}")
                if kind != "lattice":
                    require(tuple(int(x) for x in back.start_pos) == start and tuple(int(x) for x in back.end_pos) == end,
                            f"{sig}:{nm}:endpoints", f"read back {back.start_pos}->{back.end_pos}, expected {start}->{end}")
                if kind == "solved":
                    require(L.as_cells(back.solution) == [tuple(q) for q in sol], f"{sig}:{nm}:solution",
                            f"read back {L.as_cells(back.solution)}, expected {sol}; bits={g['cl']}")
            labels.append("round-trip")
        scribble(img)
    E = M.n_edges(g)
    nt = 0 < E < len(M.lattice_edges(r, c)) and kind != "lattice" and len(sol) >= 3
    return {"nt": nt, "labels": labels}


PERMS = [list(p) for p in __import__("itertools").permutations([list(o) for o in OPTS])]


def _cases_for_graph(g, pairs_limit, rnd):
    a = M.adj(g)
    cells = sorted(a)
    k = [0]

    def seq():
        k[0] += 1
        return PERMS[(k[0] + rnd.randrange(6)) % 6]

    yield {"g": g, "kind": "lattice", "seq": seq()}
    pairs = [(s, e) for s in cells for e in cells if s != e]
    if pairs_limit is not None and len(pairs) > pairs_limit:
        pairs = rnd.sample(pairs, pairs_limit)
    for s, e in pairs:
        yield {"g": g, "kind": "targeted", "sol": [list(s), list(e)], "seq": seq()}
        for p in M.all_shortest_paths(a, s, e, cap=8):
            yield {"g": g, "kind": "solved", "sol": [list(q) for q in p], "seq": seq()}


def _simple_paths(a, s, limit=None):
    """every self-avoiding walk from s with >= 2 cells (depth-first)"""
    out = []
    stack = [[s]]
    while stack:
        p = stack.pop()
        if len(p) >= 2:
            out.append(p)
            if limit is not None and len(out) >= limit:
                return out
        for v in sorted(a[p[-1]]):
            if v not in p:
                stack.append(p + [v])
    return out


def _exhaustive_walks(shard, nshards):
    """solutions that are valid (self-avoiding, along connections) but not necessarily shortest: all of them on shapes up to 2x3 / 3x2"""
    k = 0
    for r, c in [(1, 2), (1, 3), (2, 2), (2, 3), (3, 2)]:
        for g in G.all_graphs(r, c):
            k += 1
            if k % nshards != shard:
                continue
            a = M.adj(g)
            j = 0
            for s in sorted(a):
                for p in _simple_paths(a, s):
                    j += 1
                    yield {"g": g, "kind": "solved", "sol": [list(q) for q in p], "seq": PERMS[j % 6]}


@st.composite
def _random_walk(draw, hi):
    g = draw(G.shaped_graphs(2, hi, False, connected=draw(st.booleans())))
    a = M.adj(g)
    s = tuple(draw(G.cell_in(g["r"], g["c"])))
    p = [s]
    for _ in range(draw(st.sampled_from([0, 1, 2, 3, 5, 8, 12, 20, 40, 80]))):
        nxt = [v for v in sorted(a[p[-1]]) if v not in p]
        if not nxt:
            break
        p.append(draw(st.sampled_from(nxt)))
    seq = draw(st.lists(st.sampled_from([list(o) for o in OPTS]), min_size=1, max_size=4))
    return {"g": g, "kind": "solved", "sol": [list(q) for q in p], "seq": seq}


def check_twins(case: dict):
    """mazes of different shapes holding the same flags in the same flat order, drawn one after the other in one process"""
    out = None
    for sub_case in case["seq_cases"]:
        out = check(sub_case)
    return {"nt": bool(out and out.get("nt")), "labels": ["twins"]}


@st.composite
def _twins(draw):
    from mzverif.props import C13

    tw = draw(C13._twins())
    cases = []
    for r, c in tw["order"]:
        g = {"r": r, "c": c, "cl": tw["cl"]}
        a = M.adj(g)
        s0 = tuple(draw(G.cell_in(r, c)))
        far = sorted(M.bfs(a, s0).items(), key=lambda kv: (-kv[1], kv[0]))[0][0]
        sol = [list(q) for q in M.shortest_path(a, s0, far)]
        kind = draw(st.sampled_from(["lattice", "solved", "targeted"])) if len(sol) >= 2 else "lattice"
        cases.append({"g": g, "kind": kind, "sol": sol, "seq": [[True, True]] if kind != "lattice" or True else []})
    return {"seq_cases": cases}


@st.composite
def _big(draw, shortest):
    # up to 127 cells per side the coordinates are stored as int8; 129 / 130 / 150 lie beyond what int8 can hold at all
    base = draw(G.big_int8_case(sizes=(127, 130, 65, 100, 129, 64, 40, 150, 33), shortest=shortest))
    base["kind"] = draw(st.sampled_from(["solved", "solved", "targeted"]))
    base["seq"] = draw(st.lists(st.sampled_from([list(o) for o in OPTS]), min_size=1, max_size=2))
    if [True, True] not in base["seq"]:
        base["seq"].append([True, True])
    return base


def _exhaustive(quick):
    def cases(shard, nshards):
        k = 0
        for r, c in G.small_shapes():
            limit = 6 if (quick and len(M.lattice_edges(r, c)) > 7) else None
            for g in G.all_graphs(r, c):
                k += 1
                if k % nshards != shard:
                    continue
                rnd = random.Random(core.derive_seed(core.SEED, "C10", k))
                yield from _cases_for_graph(g, limit, rnd)

    return cases


@st.composite
def _random(draw, hi):
    base = draw(G.solved_case(lo=2, hi=hi, square=False, min_len=2))
    g, sol = base["g"], base["sol"]
    kind = draw(st.sampled_from(["lattice", "targeted", "solved", "solved"]))
    if len(sol) < 2:
        kind = "lattice"
    if kind == "targeted" and draw(st.booleans()):
        # endpoints need not be connected for a targeted maze
        r, c = g["r"], g["c"]
        s = [draw(st.integers(0, r - 1)), draw(st.integers(0, c - 1))]
        e = [draw(st.integers(0, r - 1)), draw(st.integers(0, c - 1))]
        if s != e:
            sol = [s, e]
    seq = draw(st.lists(st.sampled_from([list(o) for o in OPTS]), min_size=1, max_size=4))
    return {"g": g, "kind": kind, "sol": sol, "seq": seq}


def subs(tier: str):
    q = tier == "quick"
    return [
        Sub("exhaustive<=3x3", check, "exhaustive", cases=_exhaustive(q), exhaustive_flag=not q),
        Sub("random", check, "hypothesis", strategy=lambda: _random(12 if q else 20), examples=80 if q else 1200),
        Sub("concurrent-threads", core.threaded(check), "hypothesis", strategy=core.threaded_strategy(lambda: _random(8 if q else 12)), examples=6 if q else 120, ambient=False),
        Sub("any-valid-solution-exhaustive<=2x3", check, "exhaustive", cases=_exhaustive_walks, exhaustive_flag=True),
        Sub("large-grids-int8", check, "hypothesis", strategy=lambda: _big(False), examples=3 if q else 40),
        Sub("same-flags-other-shape", check_twins, "hypothesis", strategy=_twins, examples=15 if q else 300),
        Sub("any-valid-solution-random", check, "hypothesis", strategy=lambda: _random_walk(8 if q else 14), examples=60 if q else 1000),
    ]
