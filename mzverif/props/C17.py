"""C17 - rasterized input/target images show the problem and only the solution."""

from __future__ import annotations

import numpy as np
from hypothesis import strategies as st

from mzverif import core
from mzverif import gen as G
from mzverif import lib as L
from mzverif import model as M
from mzverif.core import Sub, call, require

ID = "C17"
LEVEL = "exploration"
TECHNIQUE = "independent renderer + explicit-loop post-processing compared pixel for pixel: Hypothesis over hand-built and generated mazes (square, oblong, int8..int64 / Fortran-ordered arrays, 33..100 cells per side), same-flags-other-shape twins, repeated rasterization of one object, datasets and batches (up to 1025 indices, compared with model-verified images), config-driven routes (from_config_augmented, make_numpy_collection); batches kept by the caller while further batches are fetched; the same check on several cases at once, one thread each (interleavings sampled)"
RULE = (
    "case = (solved maze given as bits+solution or as a seeded generator call, remove_isolated_cells, extend_pixels, endpoints_as_open"
    "[, dataset items + index list]). Non-trivial = solution of >= 3 cells and (an isolated non-wall pixel exists in input or target "
    "before post-processing, or extend_pixels is on); distinct by canonical case digest."
)
ASSUMPTIONS = [
    "'open pixel' in the isolated-cell rule means non-wall pixel (start/end colours included), as the function's docstring says",
    "generator cases take their endpoints from the model (a cell of the recorded component and the farthest cell from it), not from the library's random path",
]


def _expected(g, sol, ric, ext, eao):
    base = M.render(g, tuple(sol[0]), tuple(sol[-1]), sol, True, True)
    H, W = len(base), len(base[0])
    inp = [[(M.OPEN if px == M.PATH else px) for px in row] for row in base]
    tgt = []
    for row in base:
        out = []
        for px in row:
            if px == M.PATH:
                out.append(M.OPEN)
            elif px in (M.START, M.END):
                out.append(M.OPEN if eao else px)
            else:
                out.append(M.WALL)
        tgt.append(out)

    def isolated_count(img):
        n = 0
        for i in range(H):
            for j in range(W):
                if img[i][j] != M.WALL and all(
                    not (0 <= a < H and 0 <= b < W) or img[a][b] == M.WALL for a, b in ((i + 1, j), (i - 1, j), (i, j + 1), (i, j - 1))
                ):
                    n += 1
        return n

    def remove_isolated(img):
        res = [list(row) for row in img]
        for i in range(H):
            for j in range(W):
                if img[i][j] != M.WALL and all(
                    not (0 <= a < H and 0 <= b < W) or img[a][b] == M.WALL for a, b in ((i + 1, j), (i - 1, j), (i, j + 1), (i, j - 1))
                ):
                    res[i][j] = M.WALL
        return res

    def extend(img):
        h, w = len(img), len(img[0])
        res = [[M.WALL for _ in range(2 * w + 2)] for _ in range(2 * h + 2)]
        for i in range(h):
            for j in range(w):
                for di in (0, 1):
                    for dj in (0, 1):
                        res[1 + 2 * i + di][1 + 2 * j + dj] = img[i][j]
        return res

    iso = isolated_count(inp) + isolated_count(tgt)
    if ric:
        inp, tgt = remove_isolated(inp), remove_isolated(tgt)
    if ext:
        inp, tgt = extend(inp), extend(tgt)
    return inp, tgt, iso


def _compare(sig, got, g, sol, opts):
    M.sync_palette()
    ric, ext, eao = opts
    inp, tgt, iso = _expected(g, sol, ric, ext, eao)
    arr = np.asarray(got)
    require(arr.ndim == 4 and arr.shape[0] == 2 and arr.shape[-1] == 3, f"{sig}:shape", f"{arr.shape}")
    require(tuple(arr.shape[1:3]) == (len(inp), len(inp[0])), f"{sig}:size", f"{arr.shape} expected {(len(inp), len(inp[0]))}")
    d = M.first_pixel_diff(M.img_to_lists(arr[0]), inp)
    require(d is None, f"{sig}:input-differs", f"opts(ric,ext,eao)={opts}: {d}; bits={g['cl']} {g['r']}x{g['c']} sol={sol}")
    d = M.first_pixel_diff(M.img_to_lists(arr[1]), tgt)
    require(d is None, f"{sig}:target-differs", f"opts(ric,ext,eao)={opts}: {d}; bits={g['cl']} {g['r']}x{g['c']} sol={sol}")
    return iso


def _resolve(case):
    """(g, sol) of a case; generator cases are resolved through the library generator + model endpoints"""
    if "gen" in case:
        m = call("C17:generator", L.run_generator, case)
        g = L.g_of(m)
        a = M.adj(g)
        vc = (m.generation_meta or {}).get("visited_cells")
        start = min(L.as_cells(np.array(list(vc)))) if vc is not None and len(vc) > 0 else (0, 0)
        dist = M.bfs(a, start)
        far = max(sorted(dist), key=lambda u: dist[u])
        return g, [list(q) for q in M.shortest_path(a, start, far)]
    return case["g"], case["sol"]


def check(case: dict):
    from maze_dataset.dataset.rasterized import process_maze_rasterized_input_target

    g, sol = _resolve(case)
    opts = tuple(case["opts"])
    sm = L.solved(g, sol, dtype=L.provenance(case, g))
    got = call("C17:process", process_maze_rasterized_input_target, sm, remove_isolated_cells=opts[0], extend_pixels=opts[1], endpoints_as_open=opts[2])
    import torch

    require(isinstance(got, torch.Tensor), "C17:process:type", f"{type(got)}")
    iso = _compare("C17:process", got.numpy(), g, sol, opts)
    first = got.numpy().copy()
    core.scribble(got)
    other = tuple(not x for x in opts) if case.get("flip_between") else opts
    if other != opts:
        mid = call("C17:process", process_maze_rasterized_input_target, sm, remove_isolated_cells=other[0], extend_pixels=other[1], endpoints_as_open=other[2])
        _compare("C17:process", mid.numpy(), g, sol, other)
    again = call("C17:process", process_maze_rasterized_input_target, sm, remove_isolated_cells=opts[0], extend_pixels=opts[1], endpoints_as_open=opts[2])
    require(np.array_equal(again.numpy(), first), "C17:process:second-call-differs", f"a second rasterization of the same maze object differs from the first (opts={opts})")
    labels = [f"opts:{int(opts[0])}{int(opts[1])}{int(opts[2])}", "gen:" + case["gen"] if "gen" in case else "hand", f"len{min(len(sol), 3)}"]
    if iso:
        labels.append("has-isolated-pixel")
    return {"nt": len(sol) >= 3 and (iso > 0 or opts[1]), "labels": labels}


def check_dataset(case: dict):
    import torch
    from maze_dataset import MazeDataset, MazeDatasetConfig
    from maze_dataset.dataset.rasterized import RasterizedMazeDataset

    n, items, opts = case["n"], case["items"], tuple(case["opts"])
    base = MazeDataset(MazeDatasetConfig(name="r", grid_n=n, n_mazes=len(items)), [L.solved(it["g"], it["sol"], dtype=L.provenance([case, i], it["g"])) for i, it in enumerate(items)])
    added = {"remove_isolated_cells": opts[0], "extend_pixels": opts[1], "endpoints_as_open": opts[2]}
    if case.get("omit_default") and opts == (True, True, False):
        added = None
    rds = call("C17:from_base", RasterizedMazeDataset.from_base_MazeDataset, base, added)
    require(len(rds) == len(items), "C17:dataset:len", f"{len(rds)} vs {len(items)}")
    iso = 0
    verified = []
    for i, it in enumerate(items):
        got = call("C17:getitem", rds.__getitem__, i)
        iso += _compare("C17:getitem", got.numpy(), it["g"], it["sol"], opts)
        verified.append(got.numpy().copy())  # checked against the model above
        core.scribble(got)
    idxs = case["idxs"]
    if case.get("long_batch"):
        # batches longer than any internal chunk size (indices repeat; the dataset is small)
        idxs = [(k * case["long_batch"][1] + k // 7) % len(items) for k in range(case["long_batch"][0])]
    batch = call("C17:get_batch", rds.get_batch, idxs)
    eff = list(range(len(items))) if idxs is None else idxs
    arr = batch.numpy()
    require(arr.ndim == 5 and arr.shape[0] == 2 and arr.shape[1] == len(eff), "C17:get_batch:shape", f"{arr.shape} for {len(eff)} indices")
    for pos, i in enumerate(eff):
        # against the images verified above (not against a fresh library call, which would share any defect of repeated rasterization)
        single = verified[i]
        require(arr[0, pos].shape == single[0].shape and np.array_equal(arr[0, pos], single[0]) and np.array_equal(arr[1, pos], single[1]), "C17:get_batch:order",
                f"batch position {pos} (of {len(eff)}) does not hold the images of item {i}; idxs={idxs if len(eff) <= 12 else str(eff[:12]) + '...'}")
    # the caller keeps the batch and asks for another one of the same length (other order), as when an epoch's batches are collected in a
    # list or a validation batch is fetched while the training batch is still held: both batches hold their own items afterwards
    if idxs is not None and 1 <= len(eff) <= 64:
        eff2 = [eff[(k + 1) % len(eff)] for k in range(len(eff))][::-1] if len(set(eff)) > 1 else [(i + 1) % len(items) for i in eff]
        arr2 = call("C17:get_batch", rds.get_batch, eff2).numpy()
        for which, a_, e_ in (("second", arr2, eff2), ("first (kept while the second was fetched)", arr, eff)):
            for pos, i in enumerate(e_):
                require(np.array_equal(a_[0, pos], verified[i][0]) and np.array_equal(a_[1, pos], verified[i][1]), "C17:get_batch:order",
                        f"after two batches of {len(eff)} indices the {which} batch does not hold the images of item {i} at position {pos}; idxs={eff} then {eff2}")
    if case.get("flip"):
        # the options live in the dataset's configuration: after the caller changes them there, the same object must rasterize accordingly
        new_opts = tuple(bool(a) != bool(b) for a, b in zip(opts, case["flip"]))
        rds.cfg.remove_isolated_cells, rds.cfg.extend_pixels, rds.cfg.endpoints_as_open = new_opts
        for i, it in enumerate(items):
            got = call("C17:getitem", rds.__getitem__, i)
            _compare("C17:getitem:after-option-change", got.numpy(), it["g"], it["sol"], new_opts)
        rds.cfg.remove_isolated_cells, rds.cfg.extend_pixels, rds.cfg.endpoints_as_open = opts
    # and once more item by item, after the batch
    for i, it in enumerate(items):
        again = call("C17:getitem", rds.__getitem__, i).numpy()
        require(np.array_equal(again, verified[i]), "C17:getitem:second-call-differs", f"item {i}: a later rasterization of the same maze differs from the first one")
    return {"nt": len(eff) >= 2 and len(set(eff)) >= 2, "labels": ["batch", "idxs:none" if idxs is None else "idxs:list"]}


def check_config_route(case: dict):
    """the config-driven routes: RasterizedMazeDataset.from_config_augmented and make_numpy_collection (options travel through the
    configuration; the arrays of the collection are the batches of all items)"""
    from maze_dataset.dataset.rasterized import RasterizedMazeDataset, RasterizedMazeDatasetConfig, make_numpy_collection
    from maze_dataset.generation.generators import GENERATORS_MAP

    opts = tuple(case["opts"])
    kw = dict(name="rc", grid_n=case["sizes"][0], n_mazes=case["n_mazes"], seed=case["seed"], maze_ctor=GENERATORS_MAP[case["ctor"]],
              maze_ctor_kwargs=dict(case.get("kw", {})))
    given = {"remove_isolated_cells": opts[0], "extend_pixels": opts[1], "endpoints_as_open": opts[2]}
    if case.get("omit_default"):
        given = {k: v for k, v in given.items() if v != {"remove_isolated_cells": True, "extend_pixels": True, "endpoints_as_open": False}[k]}
    cfg = call("C17:config", lambda: RasterizedMazeDatasetConfig(**kw, **given))
    fkw = dict(load_local=False, save_local=False, do_download=False)

    def one(rds, sig):
        total_iso = 0
        for i, m in enumerate(rds.mazes):
            g, sol = L.g_of(m), [list(q) for q in L.as_cells(m.solution)]
            got = call(f"{sig}:getitem", rds.__getitem__, i)
            total_iso += _compare(f"{sig}:getitem", got.numpy(), g, sol, opts)
        return total_iso

    try:
        if case["route"] == "augmented":
            rds = RasterizedMazeDataset.from_config_augmented(cfg, **fkw)
            require(len(rds) == case["n_mazes"] and rds.cfg.grid_n == case["sizes"][0], "C17:augmented:dataset", f"{len(rds)} mazes, grid {rds.cfg.grid_n}")
            one(rds, "C17:augmented")
        else:
            col = make_numpy_collection(cfg, list(case["sizes"]), from_config_kwargs=fkw, verbose=False)
            require(sorted(col["arrays"]) == sorted(f"{n}x{n}" for n in case["sizes"]) == sorted(col["configs"]), "C17:collection:keys", f"{sorted(col['arrays'])}")
            for n in case["sizes"]:
                arr, c = np.asarray(col["arrays"][f"{n}x{n}"]), col["configs"][f"{n}x{n}"]
                require(c.grid_n == n and (c.remove_isolated_cells, c.extend_pixels, c.endpoints_as_open) == opts, "C17:collection:config", f"{n}: {c.grid_n} {c.summary() if hasattr(c, 'summary') else c}")
                # the same configuration, requested directly, gives the mazes whose images the array must hold
                c2 = RasterizedMazeDatasetConfig.load(cfg.serialize())
                c2.grid_n = n
                rds = RasterizedMazeDataset.from_config_augmented(c2, **fkw)
                require(arr.ndim == 5 and arr.shape[0] == 2 and arr.shape[1] == len(rds) == case["n_mazes"], "C17:collection:shape", f"{arr.shape} for {len(rds)} mazes")
                for i, m in enumerate(rds.mazes):
                    g, sol = L.g_of(m), [list(q) for q in L.as_cells(m.solution)]
                    _compare("C17:collection:item", arr[:, i], g, sol, opts)
    except ValueError as e:
        if any(s_ in str(e) for s_ in core.DOCUMENTED_GENERATION_ERRORS) or core._raised_while_drawing_endpoints(e):
            raise core.Discard() from e
        raise
    return {"nt": case["n_mazes"] >= 2, "labels": ["route:" + case["route"], f"opts:{int(opts[0])}{int(opts[1])}{int(opts[2])}"]}


@st.composite
def _config_route(draw):
    ctor = draw(st.sampled_from(["gen_dfs", "gen_dfs", "gen_wilson", "gen_dfs_percolation", "gen_percolation"]))
    kw = {}
    if ctor in ("gen_dfs_percolation", "gen_percolation"):
        kw = {"p": draw(st.sampled_from([0.3, 0.5, 0.8]))}
    route = draw(st.sampled_from(["augmented", "collection"]))
    sizes = draw(st.lists(st.integers(2, 6), min_size=1, max_size=1 if route == "augmented" else 3, unique=True))
    return {"route": route, "ctor": ctor, "kw": kw, "sizes": sizes, "n_mazes": draw(st.integers(1, 4)), "seed": draw(st.integers(0, 10**6)),
            "opts": draw(_OPTS), "omit_default": draw(st.booleans())}


_OPTS = st.tuples(st.booleans(), st.booleans(), st.booleans()).map(list)


@st.composite
def _hand(draw, hi):
    base = draw(G.solved_case(lo=2, hi=hi, square=False))
    return {"g": base["g"], "sol": base["sol"], "opts": draw(_OPTS), "flip_between": draw(st.booleans())}


@st.composite
def _gen(draw, hi):
    call_ = draw(G.generator_call(lo=2, hi=hi, square=True))
    if call_["gen"] in ("gen_percolation", "gen_dfs_percolation") and draw(st.booleans()):
        call_["kw"]["p"] = draw(st.sampled_from([0.05, 0.1, 0.2, 0.3]))
    call_["opts"] = draw(_OPTS)
    return call_


@st.composite
def _dataset(draw):
    n = draw(st.integers(2, 5))
    items = draw(st.lists(G.solved_case(lo=n, hi=n, square=True), min_size=1, max_size=5))
    items = [{"g": it["g"], "sol": it["sol"]} for it in items]
    idxs = draw(st.one_of(st.none(), st.lists(st.integers(0, len(items) - 1), min_size=1, max_size=8)))
    case = {"n": n, "items": items, "opts": draw(_OPTS), "idxs": idxs, "omit_default": draw(st.booleans())}
    if draw(st.booleans()):
        case["flip"] = draw(st.lists(st.booleans(), min_size=3, max_size=3).filter(any))
    if draw(st.integers(0, 4)) == 0:
        case["long_batch"] = [draw(st.sampled_from([257, 300, 513, 1025, 129, 65])), draw(st.integers(1, 5))]
    return case


def check_twins(case: dict):
    out = None
    for sub_case in case["seq_cases"]:
        out = check(sub_case)
    return {"nt": bool(out and out.get("nt")), "labels": ["twins"]}


@st.composite
def _twins(draw):
    """mazes of different shapes holding the same flags in the same flat order, rasterized one after the other in one process"""
    from mzverif.props import C13

    tw = draw(C13._twins())
    opts = draw(_OPTS)
    cases = []
    for r, c in tw["order"]:
        g = {"r": r, "c": c, "cl": tw["cl"]}
        a = M.adj(g)
        s0 = tuple(draw(G.cell_in(r, c)))
        far = sorted(M.bfs(a, s0).items(), key=lambda kv: (-kv[1], kv[0]))[0][0]
        cases.append({"g": g, "sol": [list(q) for q in M.shortest_path(a, s0, far)], "opts": opts})
    return {"seq_cases": cases}


@st.composite
def _big(draw):
    base = draw(G.big_int8_case(sizes=(100, 65, 40, 64, 33)))
    base["opts"] = draw(_OPTS)
    return base


def subs(tier: str):
    q = tier == "quick"
    return [
        Sub("hand-mazes", check, "hypothesis", strategy=lambda: _hand(10), examples=150 if q else 5000),
        Sub("concurrent-threads", core.threaded(check), "hypothesis", strategy=core.threaded_strategy(lambda: _hand(8)), examples=8 if q else 150, ambient=False),
        Sub("generated-mazes", check, "hypothesis", strategy=lambda: _gen(10), examples=100 if q else 3000),
        Sub("same-flags-other-shape", check_twins, "hypothesis", strategy=_twins, examples=10 if q else 200),
        Sub("large-grids-int8", check, "hypothesis", strategy=_big, examples=3 if q else 40),
        Sub("datasets-and-batches", check_dataset, "hypothesis", strategy=_dataset, examples=40 if q else 1500),
        Sub("config-routes", check_config_route, "hypothesis", strategy=_config_route, examples=10 if q else 500),
    ]
