"""`check <ID> [--tier quick|thorough] [--replay FILE]`"""

import argparse
import importlib
import os
import sys
import traceback
import warnings

warnings.filterwarnings("ignore")
os.environ.setdefault("MPLBACKEND", "Agg")
os.environ.setdefault("TQDM_DISABLE", "1")

HERE = os.path.dirname(os.path.abspath(__file__))
sys.path.insert(0, os.path.dirname(HERE))


def _arm_watchdog(tier: str) -> None:
    """a run that exceeds its wall budget is INCONCLUSIVE (exit 2), never a violation"""
    import multiprocessing
    import threading

    budget = float(os.environ.get("VERIF_TIMEOUT") or (1500 if tier == "quick" else 4 * 3600))

    def fire():
        code = 2
        try:
            try:
                from mzverif import core as _core

                if _core.report_partial():
                    code = 1
            except Exception:  # noqa: BLE001
                pass
            if code == 2:
                print(f"HARNESS-ERROR (inconclusive, not a violation): wall budget of {budget:.0f}s exceeded", flush=True)
            for p in multiprocessing.active_children():
                try:
                    p.kill()
                except Exception:
                    pass
            # grandchildren (pools started by the code under test)
            try:
                import signal

                me = os.getpid()
                for pid in _descendants(me):
                    try:
                        os.kill(pid, signal.SIGKILL)
                    except Exception:
                        pass
            except Exception:
                pass
        finally:
            sys.stdout.flush()
            os._exit(code)

    t = threading.Timer(budget, fire)
    t.daemon = True
    t.start()


def _descendants(root: int) -> list:
    kids: dict = {}
    for d in os.listdir("/proc"):
        if d.isdigit():
            try:
                with open(f"/proc/{d}/stat") as f:
                    parts = f.read().rsplit(")", 1)[1].split()
                kids.setdefault(int(parts[1]), []).append(int(d))
            except Exception:
                pass
    out, stack = [], [root]
    while stack:
        for k in kids.get(stack.pop(), []):
            out.append(k)
            stack.append(k)
    return out


def main() -> int:
    ap = argparse.ArgumentParser()
    ap.add_argument("prop")
    ap.add_argument("--tier", default=os.environ.get("VERIF_TIER") or "quick", choices=["quick", "thorough"])
    ap.add_argument("--replay", default=None)
    args = ap.parse_args()
    _arm_watchdog(args.tier)
    try:
        from mzverif import core

        repo = os.environ.get("VERIF_REPO", "/repo")
        import maze_dataset

        if not os.path.abspath(maze_dataset.__file__).startswith(os.path.abspath(repo) + os.sep):
            print(f"HARNESS-ERROR: maze_dataset imported from {maze_dataset.__file__}, expected {repo}")
            return 2
        mod = importlib.import_module(f"mzverif.props.{args.prop}")
        if args.replay:
            return core.run_replay(mod, args.replay)
        return core.run_property(mod, args.tier)
    except SystemExit:
        raise
    except BrokenPipeError:
        return 1
    except BaseException:  # noqa: BLE001
        print("HARNESS-ERROR (inconclusive, not a violation):")
        traceback.print_exc()
        return 2


if __name__ == "__main__":
    sys.exit(main())
