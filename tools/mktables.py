#!/venv/bin/python
"""render the seeded-change and sensitivity tables (markdown) from seeded/*/meta.json and sensitivity.json"""
import json, os, glob
here = os.path.dirname(os.path.dirname(os.path.abspath(__file__)))
print("| seeded change | property | what it does | needs to manifest | repository suite with the change | detected by (quick tier unless noted) |")
print("|---|---|---|---|---|---|")
for d in sorted(glob.glob(os.path.join(here, "seeded", "*"))):
    m = json.load(open(os.path.join(d, "meta.json")))
    det = []
    for p, c in m["detected_by"].items():
        if c["exit"] == 1:
            det.append(f"`{p}` exit 1 in {c['seconds']}s: " + ", ".join(f"`{s}`" for s in c["signatures"][:2]))
        else:
            det.append(f"`{p}`: **not detected** (exit {c['exit']})")
    note = f" *{m['note']}*" if m.get("note") else ""
    def cut(s, n=230):
        s = " ".join(str(s or "").split()); return s if len(s) <= n else s[:n] + "…"
    print(f"| `{os.path.basename(d)}` | {m['property']} | {cut(m['summary'])} | {cut(m['needs_to_manifest'])} | {m['confirmed_by_me']['repository_test_suite_with_change']} | {'; '.join(det)}{note} |")
print()
print("| mutant | property | file | exit | seconds | first signatures |")
print("|---|---|---|---|---|---|")
for r in json.load(open(os.path.join(here, "sensitivity.json"))):
    print(f"| `{r['name']}`{' (negative control)' if r.get('control') else ''} | {r['property']} | `{r['file'].split('/')[-1]}` | {r.get('exit')} | {r.get('seconds')} | {', '.join('`'+s+'`' for s in r.get('signatures', [])[:2])} |")
