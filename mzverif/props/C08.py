"""C08 - dataset filters select exactly what they document and never disturb their input."""

from __future__ import annotations

import math
from collections import Counter
from fractions import Fraction

import numpy as np
from hypothesis import strategies as st

from mzverif import core
from mzverif import gen as G
from mzverif import lib as L
from mzverif import model as M
from mzverif.core import Discard, Sub, call, require

ID = "C08"
LEVEL = "exploration"
TECHNIQUE = "model-based testing over generated filter sequences: every filter application is mirrored on an in-memory list model (exact rational percentile, explicit duplicate rules, provenance bookkeeping) and compared after each step; hand datasets with mixed array provenance or loaded back from any of the three storage formats, generated datasets of 99..130 mazes, int8 endpoints up to 2(n-1) apart; config-driven path compared differentially with by-hand application"
RULE = (
    "case = (hand-built dataset with exact / near duplicates at chosen positions or generated dataset, sequence of filter operations "
    "with parameters). After every operation: result == model (mazes in order), input untouched, config provenance, maze count, "
    "collected metadata == model counters. Non-trivial = sequence with >= 2 applied filters of which at least one removed something "
    "but not everything; distinct by canonical case digest."
)
ASSUMPTIONS = [
    "cut_percentile_shortest: percentile computed exactly (linear interpolation, rational arithmetic); when the exact value lies within 1e-9 of an integer both neighbouring cutoffs are accepted",
    "remove_duplicates: a maze is dropped when a later maze of the same shape differs in <= threshold connection bits, or has an equally long solution differing in <= threshold coordinate entries (checks disabled by None)",
    "operations outside a filter's domain are skipped: percentile / metadata collection on an empty dataset, metadata collection without any metadata",
    "collect_generation_meta works in place by default and returns the same object (documented exception to 'returns a new dataset')",
]


# ---- custom predicates (registry) ----------------------------------------------------------


def pred_len_even(m) -> bool:
    return len(m.solution) % 2 == 0


def pred_start_row_at_most(m, row: int) -> bool:
    return int(m.start_pos[0]) <= row


def pred_min_connections(m, k: int = 1) -> bool:
    return int(np.sum(m.connection_list)) >= k


CUSTOM = {"pred_len_even": pred_len_even, "pred_start_row_at_most": pred_start_row_at_most, "pred_min_connections": pred_min_connections}


def _custom_model(name, item, kwargs):
    if name == "pred_len_even":
        return len(item["sol"]) % 2 == 0
    if name == "pred_start_row_at_most":
        return item["sol"][0][0] <= kwargs["row"]
    return item["g"]["cl"].count("1") >= kwargs.get("k", 1)


# ---- model -------------------------------------------------------------------------------


def _percentile_cutoffs(lengths, p) -> set:
    n = len(lengths)
    s = sorted(lengths)
    pos = Fraction(n - 1) * Fraction(p) / 100
    lo = math.floor(pos)
    hi = min(lo + 1, n - 1)
    val = Fraction(s[lo]) + (pos - lo) * (s[hi] - s[lo])
    cut = {math.floor(val)}  # int() truncation of a non-negative value
    near = round(val)
    if abs(val - near) < Fraction(1, 10**9):
        cut |= {near, near - 1} if near >= 1 else {near}
    return {c for c in cut if c >= 0}


def _bits_diff(a, b):
    return sum(1 for x, y in zip(a["g"]["cl"], b["g"]["cl"]) if x != y)


def _sol_diff(a, b):
    return sum(1 for p, q in zip(a["sol"], b["sol"]) for x, y in zip(p, q) if x != y)


def model_apply(items, op):
    """returns list of acceptable results (list of item lists) - more than one only for percentile ties"""
    f, kw = op["f"], op["params"]
    if f == "path_length":
        return [[it for it in items if len(it["sol"]) >= kw["min_length"]]]
    if f == "start_end_distance":
        return [[it for it in items if abs(it["sol"][0][0] - it["sol"][-1][0]) + abs(it["sol"][0][1] - it["sol"][-1][1]) >= kw["min_distance"]]]
    if f == "cut_percentile_shortest":
        outs = []
        for c in sorted(_percentile_cutoffs([len(it["sol"]) for it in items], kw.get("percentile", 10.0))):
            outs.append([it for it in items if len(it["sol"]) > c])
        return outs
    if f == "truncate_count":
        return [items[: kw["max_count"]]]
    if f == "remove_duplicates":
        tc, ts = kw.get("minimum_difference_connection_list", 1), kw.get("minimum_difference_solution", 1)
        out = []
        for i, a in enumerate(items):
            dup = False
            for b in items[i + 1 :]:
                if tc is not None and (a["g"]["r"], a["g"]["c"]) == (b["g"]["r"], b["g"]["c"]) and _bits_diff(a, b) <= tc:
                    dup = True
                    break
                if ts is not None and len(a["sol"]) == len(b["sol"]) and _sol_diff(a, b) <= ts:
                    dup = True
                    break
            if not dup:
                out.append(a)
        return [out]
    if f == "remove_duplicates_fast":
        seen, out = set(), []
        for it in items:
            k = (it["g"]["cl"], tuple(map(tuple, it["sol"])))
            if k not in seen:
                seen.add(k)
                out.append(it)
        return [out]
    if f == "custom":
        return [[it for it in items if _custom_model(op["name"], it, kw)]]
    if f in ("strip_generation_meta", "collect_generation_meta"):
        return [list(items)]
    raise ValueError(f)


def _struct(m):
    return (L.g_of(m)["cl"], tuple(L.as_cells(m.solution)))


def _item_struct(it):
    return (it["g"]["cl"], tuple(tuple(q) for q in it["sol"]))


def _meta_counts(mazes):
    """documented value counts over per-maze metadata, read from the objects just before collection"""
    out: dict = {}
    for m in mazes:
        for k, v in (m.generation_meta or {}).items():
            c = out.setdefault(k, Counter())
            if isinstance(v, (bool, int, float, str)):
                c[v] += 1
            elif isinstance(v, (set, frozenset)):
                c.update(tuple(int(x) for x in e) for e in v)
            else:
                arr = np.array(v)
                if arr.ndim == 1:
                    c[tuple(int(x) for x in arr)] += 1
                else:
                    c.update(tuple(int(x) for x in row) for row in arr)
    return {str(k): {str(kk): int(n) for kk, n in c.items()} for k, c in out.items()}


def _norm(d):
    return {str(k): {_keystr(kk): int(n) for kk, n in v.items()} for k, v in d.items()}


def _keystr(k):
    if isinstance(k, tuple):
        return str(tuple(int(x) for x in k))
    return str(k)


# ---- driving the library ---------------------------------------------------------------


def _invoke(ds, op):
    f, kw = op["f"], dict(op["params"])
    if f == "custom":
        return ds.custom_maze_filter(CUSTOM[op["name"]], **kw), {"name": f"__custom__:{op['name']}", "kwargs": kw}
    fn = getattr(ds.filter_by, f)
    if op.get("positional"):
        args = tuple(kw.values())
        return fn(*args), {"name": f, "args": args, "kwargs": {}}
    return fn(**kw), {"name": f, "args": (), "kwargs": kw}


def _bound(rec: dict) -> dict:
    """arguments of a recorded filter by parameter name (positional ones bound through the filter's signature)"""
    import inspect

    from maze_dataset.dataset.maze_dataset import MazeDatasetFilters

    out = dict(rec.get("kwargs", {}) or {})
    args = tuple(rec.get("args", ()) or ())
    fn = getattr(MazeDatasetFilters, str(rec.get("name", "")), None)
    if args:
        names = [p_ for p_ in inspect.signature(fn).parameters][1:] if fn is not None else []
        for k, v in enumerate(args):
            out[names[k] if k < len(names) else f"<arg{k}>"] = v
    return out


def _snapshot(ds):
    return ([_struct(m) for m in ds.mazes], len(ds), L.json_copy(_ser(ds.cfg)), [m.generation_meta is None for m in ds.mazes])


def _ser(cfg):
    import json

    return json.loads(json.dumps(cfg.serialize(), default=str))


def run_sequence(ds, items, ops, sig="C08"):
    """apply ops to ds and to the model, comparing after every step; returns (applied, removed_some_not_all, labels)"""
    applied, interesting, labels = 0, False, []
    for op in ops:
        f = op["f"]
        if f.startswith("inplace-"):
            # the caller edits the dataset it holds (its maze list is a plain list) and brings the config up to date, as the library's
            # own filters do; later filters must see the dataset as it is now
            if f == "inplace-reverse":
                ds.mazes.reverse()
                items = items[::-1]
            elif f == "inplace-extend" and ds.mazes:
                k = op["params"].get("k", 1) % len(ds.mazes) + 1
                from maze_dataset.maze.lattice_maze import SolvedMaze

                # (distinct objects with the same content: metadata collection clears the metadata of each object it has counted)
                ds.mazes.extend(SolvedMaze(connection_list=np.array(m.connection_list), solution=np.array(m.solution),
                                           generation_meta=None if m.generation_meta is None else dict(m.generation_meta)) for m in ds.mazes[:k])
                items = items + items[:k]
            elif f == "inplace-drop" and len(ds.mazes) >= 2:
                ds.mazes.pop()
                items = items[:-1]
            elif f == "inplace-assign":
                ds.mazes = list(ds.mazes[1:]) + list(ds.mazes[:1])
                items = items[1:] + items[:1]
            call(f"{sig}:update_self_config", ds.update_self_config)
            labels.append(f)
            continue
        # applicability of metadata collection is read off the dataset at hand (several filters do not carry collected metadata over)
        has_meta = len(ds) > 0 and all(m.generation_meta is not None for m in ds.mazes)
        collected = ds.generation_metadata_collected is not None
        if f == "cut_percentile_shortest" and len(items) == 0:
            labels.append("skipped-op")
            continue
        if f == "collect_generation_meta" and (len(items) == 0 or not (has_meta or collected)):
            labels.append("skipped-op")
            continue
        before = _snapshot(ds)
        filters_before = [dict(x) for x in ds.cfg.applied_filters]
        want_meta = _meta_counts(ds.mazes) if (f == "collect_generation_meta" and not collected) else None
        res, rec = call(f"{sig}:{f}", _invoke, ds, op)
        outs = model_apply(items, op)
        got = [_struct(m) for m in res.mazes]
        match = [o for o in outs if [_item_struct(it) for it in o] == got]
        require(bool(match), f"{sig}:{f}:wrong-selection",
                f"params={op['params']}: kept {len(got)} of {len(items)} mazes (lengths {[len(it['sol']) for it in items]}), model keeps {[len(o) for o in outs]}; kept-index-mismatch")
        new_items = match[0]
        # documented exception: metadata collection works in place unless inplace=False (and is a no-op returning its input when already collected)
        in_place = f == "collect_generation_meta" and (op["params"].get("inplace", True) or collected)
        if not in_place:
            require(res is not ds, f"{sig}:{f}:returned-input", "the filter returned its input object")
            after = _snapshot(ds)
            require(after[0] == before[0] and after[1] == before[1], f"{sig}:{f}:input-mazes-changed", f"input had {before[1]} mazes, now {after[1]}")
            require(after[2] == before[2], f"{sig}:{f}:input-config-changed", f"input config changed: filters {ds.cfg.applied_filters}")
            require(after[3] == before[3], f"{sig}:{f}:input-metadata-changed", "per-maze metadata of the input changed")
        want_filters = filters_before + [rec]
        gotf = list(res.cfg.applied_filters)
        # the record must name the filter and carry its arguments; whether an argument is stored positionally or by keyword is not fixed
        ok = len(gotf) == len(want_filters) and all(a.get("name") == b.get("name") and _bound(a) == _bound(b) for a, b in zip(gotf, want_filters))
        require(ok, f"{sig}:{f}:provenance", f"recorded {gotf}, expected {want_filters}")
        require(res.cfg.n_mazes == len(res) == len(new_items), f"{sig}:{f}:maze-count", f"cfg.n_mazes={res.cfg.n_mazes}, len={len(res)}, model {len(new_items)}")
        if f == "collect_generation_meta":
            require(res.generation_metadata_collected is not None, f"{sig}:{f}:nothing-collected", "")
            if want_meta is not None:
                require(_norm(res.generation_metadata_collected) == want_meta, f"{sig}:{f}:counts",
                        f"collected {str(_norm(res.generation_metadata_collected))[:300]} expected {str(want_meta)[:300]}")
            if op["params"].get("clear_in_mazes", True) is False and not collected:
                require(all(m.generation_meta is not None for m in res.mazes), f"{sig}:{f}:cleared-although-not-asked", "per-maze metadata was cleared with clear_in_mazes=False")
        if f == "strip_generation_meta":
            require(all(m.generation_meta is None for m in res.mazes), f"{sig}:{f}:not-stripped", "")
        if 0 < len(new_items) < len(items):
            interesting = True
        if len(new_items) == 0:
            labels.append("empty-result")
        labels.append(f)
        applied += 1
        if op.get("keep_input") and not in_place:
            # the caller looked at the result and goes on working with the dataset it had (which the filter must have left alone)
            labels.append("kept-input")
            continue
        ds, items = res, new_items
    return applied, interesting, labels, ds, items


def build(case):
    from maze_dataset import MazeDataset, MazeDatasetConfig

    from mzverif.props.C05 import _hand_meta

    n = case["n"]
    per = case.get("meta") == "per-maze"
    mazes = [L.solved(it["g"], it["sol"], meta=_hand_meta(it["g"], it["sol"]) if per else None) for it in case["items"]]
    # array provenance is not part of a maze's value: solutions may be stored with a narrower integer width (as after loading a
    # minimal-format file) and connection lists may be views into one packed array
    from maze_dataset.maze.lattice_maze import SolvedMaze

    packed = np.stack([np.asarray(m.connection_list) for m in mazes]) if mazes else None
    for i, it in enumerate(case["items"]):
        dt = it.get("dtype")
        if dt:
            m = mazes[i]
            mazes[i] = SolvedMaze(connection_list=packed[i] if it.get("view") else m.connection_list, solution=np.array(it["sol"], dtype=dt),
                                  generation_meta=m.generation_meta)
    cfg = MazeDatasetConfig(name="f", grid_n=n, n_mazes=len(mazes))
    return MazeDataset(cfg, mazes)


def check(case: dict):
    ds = build(case)
    items = [{"g": it["g"], "sol": it["sol"]} for it in case["items"]]
    if case.get("loaded") and items:
        # a dataset that was stored and loaded back is a dataset like any other (its arrays have whatever types the storage format uses)
        from maze_dataset import MazeDataset

        ser = {"full": ds._serialize_full, "minimal": ds._serialize_minimal, "soln_cat": ds._serialize_minimal_soln_cat}[case["loaded"]]
        ds = call("C08:harness:load", MazeDataset.load, call("C08:harness:serialize", ser))
        got0 = [_struct(m) for m in ds.mazes]
        if got0 != [_item_struct(it) for it in items]:
            raise core.Discard()  # a faulty round trip is C05's business; filters are judged on the dataset actually loaded
    applied, interesting, labels, _, _ = run_sequence(ds, items, case["ops"])
    if len({it.get("dtype") for it in case["items"]}) > 1:
        labels.append("mixed-dtypes")
    if case.get("loaded"):
        labels.append("loaded:" + case["loaded"])
    return {"nt": applied >= 2 and interesting, "labels": labels + [f"meta:{case.get('meta')}"]}


def check_config_driven(case: dict):
    """from_config with recorded filters == generate + same filters by hand == model"""
    import inspect

    from maze_dataset import MazeDataset
    from maze_dataset.dataset.maze_dataset import MazeDatasetFilters

    spec = case["spec"]
    raw_cfg = L.make_cfg({**spec, "filters": []})
    try:
        raw = MazeDataset.generate(raw_cfg)
    except ValueError as e:  # documented: no valid endpoints / component too small
        core.discard_if_unsatisfiable(e, "C08:generate")
    items = [{"g": L.g_of(m), "sol": [list(q) for q in L.as_cells(m.solution)]} for m in raw.mazes]
    ops = []
    for f in spec.get("filters", []):
        params = dict(f.get("kwargs", {}))
        op = {"f": f["name"], "params": params}
        if f.get("args"):
            names = [p for p in inspect.signature(getattr(MazeDatasetFilters, f["name"])).parameters][1:]
            op["params"] = {**dict(zip(names, f["args"])), **params}
            op["positional"] = True
        ops.append(op)
    applied, interesting, labels, hand, final_items = run_sequence(raw, items, ops, sig="C08:by-hand")
    if applied != len(ops):
        raise Discard()  # some recorded filter is outside its domain on this data (e.g. metadata collection after stripping)
    cfg = L.make_cfg(spec)
    ser_before = _ser(cfg)
    ds = call("C08:from_config", MazeDataset.from_config, cfg, load_local=False, save_local=False, do_download=False)
    require(_ser(cfg) == ser_before, "C08:from_config:config-modified", "the configuration passed in was modified")
    require([_struct(m) for m in ds.mazes] == [_struct(m) for m in hand.mazes], "C08:from_config:differs-from-by-hand",
            f"from_config kept {len(ds)} mazes, by-hand application {len(hand)}; filters={spec.get('filters')}")
    require(ds.cfg.n_mazes == len(ds), "C08:from_config:maze-count", f"{ds.cfg.n_mazes} vs {len(ds)}")
    return {"nt": len(ops) >= 1 and interesting, "labels": ["config-driven"] + labels}


# ---- strategies -------------------------------------------------------------------------


@st.composite
def _op(draw, n, max_len):
    f = draw(st.sampled_from(["path_length", "start_end_distance", "cut_percentile_shortest", "truncate_count", "remove_duplicates",
                              "remove_duplicates", "remove_duplicates_fast", "custom", "strip_generation_meta", "collect_generation_meta"]))
    op = {"f": f, "params": {}}
    if f == "path_length":
        op["params"] = {"min_length": draw(st.integers(0, 9))}
        op["positional"] = draw(st.booleans())
    elif f == "start_end_distance":
        op["params"] = {"min_distance": draw(st.integers(0, 8))}
        op["positional"] = draw(st.booleans())
    elif f == "cut_percentile_shortest":
        op["params"] = {"percentile": draw(st.sampled_from([0.0, 10.0, 25.0, 50.0, 75.0, 90.0, 100.0, 33.3]) | st.floats(0, 100, allow_nan=False).map(lambda x: round(x, 3)))}
        if draw(st.integers(0, 4)) == 0:
            op["params"] = {}
    elif f == "truncate_count":
        op["params"] = {"max_count": draw(st.integers(0, max_len + 2))}
        op["positional"] = draw(st.booleans())
    elif f == "remove_duplicates":
        mode = draw(st.sampled_from(["default", "both", "cl-only", "sol-only"]))
        thr = st.integers(0, 3)
        if mode == "both":
            op["params"] = {"minimum_difference_connection_list": draw(thr), "minimum_difference_solution": draw(thr)}
        elif mode == "cl-only":
            op["params"] = {"minimum_difference_connection_list": draw(thr), "minimum_difference_solution": None}
        elif mode == "sol-only":
            op["params"] = {"minimum_difference_connection_list": None, "minimum_difference_solution": draw(thr)}
    elif f == "collect_generation_meta":
        op["params"] = draw(st.sampled_from([{}, {}, {"inplace": False}, {"clear_in_mazes": False}, {"inplace": False, "clear_in_mazes": False}, {"inplace": True, "clear_in_mazes": True}]))
    elif f == "custom":
        op["name"] = draw(st.sampled_from(sorted(CUSTOM)))
        if op["name"] == "pred_start_row_at_most":
            op["params"] = {"row": draw(st.integers(0, n - 1))}
        elif op["name"] == "pred_min_connections" and draw(st.booleans()):
            op["params"] = {"k": draw(st.integers(0, n * n))}
    return op


@st.composite
def hand_items(draw, n, lo=3, hi=12):
    k = draw(st.integers(lo, hi))
    items = []
    for _ in range(k):
        kind = draw(st.sampled_from(["new", "new", "dup", "near-bit", "near-sol"])) if items else "new"
        if kind == "new":
            it = draw(G.solved_case(lo=n, hi=n, square=True))
            item = {"g": it["g"], "sol": it["sol"]}
        else:
            src = items[draw(st.integers(0, len(items) - 1))]
            item = {"g": dict(src["g"]), "sol": [list(q) for q in src["sol"]]}
            if kind == "near-bit":
                E = M.lattice_edges(n, n)
                u, v = E[draw(st.integers(0, len(E) - 1))]
                bits = list(item["g"]["cl"])
                bi = M.edge_bit(n, n, u, v)
                bits[bi] = "0" if bits[bi] == "1" else "1"
                item["g"]["cl"] = "".join(bits)
            elif kind == "near-sol":
                a = M.adj(item["g"])
                s = tuple(item["sol"][0])
                comp = sorted(M.component(a, s))
                e = draw(st.sampled_from(comp))
                item["sol"] = [list(q) for q in M.shortest_path(a, s, e)]
        item = {k: v for k, v in item.items() if k in ("g", "sol")}
        if draw(st.integers(0, 2)) == 0:
            item["dtype"] = draw(st.sampled_from(["int8", "int8", "int16", "int32"]))
            item["view"] = draw(st.booleans())
        pos = draw(st.sampled_from(["end", "end", "front", "mid"]))
        if pos == "front":
            items.insert(0, item)
        elif pos == "mid":
            items.insert(len(items) // 2, item)
        else:
            items.append(item)
    return items


@st.composite
def _case(draw, n_hi, max_ops):
    n = draw(st.sampled_from(list(range(2, n_hi + 1))))
    items = draw(hand_items(n))
    ops = draw(st.lists(_op(n, len(items)), min_size=1, max_size=max_ops))
    out = []
    for op in ops:
        if draw(st.integers(0, 3)) == 0:
            op["keep_input"] = True
        out.append(op)
        if draw(st.integers(0, 4)) == 0:
            out.append(dict(op))  # the same filter with the same arguments, twice in a row
        if draw(st.integers(0, 5)) == 0:
            out.append({"f": draw(st.sampled_from(["inplace-reverse", "inplace-extend", "inplace-drop", "inplace-assign"])), "params": {"k": draw(st.integers(0, 3))}})
    if draw(st.integers(0, 2)) == 0:
        # the same filter asked of one dataset object before and after the caller edited that object
        f1 = draw(_op(n, len(items)).filter(lambda o: o["f"] not in ("collect_generation_meta",)))
        f2 = dict(f1) if draw(st.booleans()) else draw(_op(n, len(items)))
        f1 = dict(f1, keep_input=True)
        edit = {"f": draw(st.sampled_from(["inplace-reverse", "inplace-extend", "inplace-drop", "inplace-assign"])), "params": {"k": draw(st.integers(0, 3))}}
        out = [f1, edit, f2] + out[:2]
    case = {"n": n, "items": items, "meta": draw(st.sampled_from(["per-maze", "per-maze", "none"])), "ops": out}
    if draw(st.integers(0, 3)) == 0:
        case["loaded"] = draw(st.sampled_from(["minimal", "soln_cat", "full"]))
    return case


@st.composite
def _config_case(draw):
    spec = draw(G.dataset_spec(n_lo=2, n_hi=5, mazes_lo=2, mazes_hi=10, with_endpoint=False, with_filters=False))
    spec["filters"] = draw(G.filter_list(max_size=3))
    return {"spec": spec}


@st.composite
def _many_case(draw):
    """datasets at and beyond 100 mazes (the size at which storage formats switch), generated, with per-maze metadata still attached"""
    spec = {"name": "many", "grid_n": draw(st.sampled_from([3, 4])), "n_mazes": draw(st.sampled_from([100, 130, 101, 99])), "ctor": draw(st.sampled_from(["gen_dfs", "gen_dfs_percolation"])),
            "kwargs": {}, "seed": draw(st.integers(0, 10**6))}
    ops = draw(st.lists(_op(spec["grid_n"], 12), min_size=1, max_size=3))
    return {"many": spec, "ops": ops}


def check_many(case: dict):
    from maze_dataset import MazeDataset

    ds = MazeDataset.generate(L.make_cfg(case["many"]))
    items = [{"g": L.g_of(m), "sol": [list(q) for q in L.as_cells(m.solution)]} for m in ds.mazes]
    applied, interesting, labels, _, _ = run_sequence(ds, items, case["ops"], sig="C08:many")
    return {"nt": applied >= 1, "labels": labels + [f"n:{case['many']['n_mazes']}"]}


@st.composite
def _far_case(draw):
    """mazes on grids of 65..127 cells per side whose endpoints are up to 2(n-1) apart, coordinates stored as int8 (what loading a
    minimal-format file gives)"""
    n = draw(st.sampled_from([65, 100, 127, 64]))
    items = []
    for _ in range(draw(st.integers(2, 4))):
        base = draw(G.big_int8_case(sizes=(n,)))
        a = M.adj(base["g"])
        if draw(st.booleans()):
            # opposite corners along the corridors
            sol = M.shortest_path(a, (0, 0), (n - 1, n - 1 if n % 2 else 0))
            items.append({"g": base["g"], "sol": [list(q) for q in sol][: draw(st.sampled_from([400, 2000, 10**6]))], "dtype": "int8", "view": False})
        else:
            items.append({"g": base["g"], "sol": base["sol"], "dtype": draw(st.sampled_from(["int8", None])), "view": False})
    ops = [{"f": "start_end_distance", "params": {"min_distance": draw(st.sampled_from([1, 100, 127, 128, 129, 200, 250]))}, "positional": draw(st.booleans())}]
    ops += draw(st.lists(_op(n, len(items)), max_size=2))
    return {"n": n, "items": items, "meta": "none", "ops": ops}


def subs(tier: str):
    q = tier == "quick"
    return [
        Sub("sequences", check, "hypothesis", strategy=lambda: _case(5, 6 if q else 10), examples=100 if q else 3000),
        Sub("datasets-of-100-and-more", check_many, "hypothesis", strategy=_many_case, examples=2 if q else 30),
        Sub("far-apart-endpoints-int8", check, "hypothesis", strategy=_far_case, examples=2 if q else 20),
        Sub("config-driven", check_config_driven, "hypothesis", strategy=_config_case, examples=40 if q else 1500),
    ]
